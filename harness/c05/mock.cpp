// E-MOCK whole loops: the REAL start_for / partition types / range_vector / blocked ranges run on the scripted mock
// runtime of r1_mock.h.  For every executed task the harness logs
//     T <kind> <flavour> <k> (b e g)^k <divisor> <max_depth> <delay> <head> <max_affinity> <stolen> <ref>=2> H <peer flag after
//       every call-out> C <answers of the cancellation reads>  =>  <events: B dims ; S dims | child partition ; …>
// The left part is fed verbatim to the Lean model (`task …`), whose event list must equal the right part.
// Implementation-side monitors (independent of the model): per-element visit counters, the chunk list.
//
// stdin: loop <kind> <flavour> <k> (b e g)^k <P> <seed> <steal@spawn %> <steal@body %> <steal late %> <cancel_after|-1>
// built with -fno-access-control.
#include "r1_mock.h"
#include <oneapi/tbb/blocked_range.h>
#include <oneapi/tbb/blocked_range2d.h>
#include <oneapi/tbb/blocked_range3d.h>
#include <oneapi/tbb/blocked_nd_range.h>
#include <oneapi/tbb/partitioner.h>
#include <oneapi/tbb/parallel_for.h>
#include <cstdio>
#include <iostream>
#include <sstream>
#include <string>
#include <vector>

using std::size_t;
typedef unsigned long long ull;
typedef tbb::blocked_range<size_t> BR;
using namespace tbb::detail::d1;

struct Dim { size_t b, e, g; };

template <typename R> struct Dims;
template <> struct Dims<BR> {
    static const char* flavour() { return "1"; }
    static std::vector<BR> get(const BR& r) { return {r}; }
    static BR make(const std::vector<Dim>& d) { return BR(d[0].b, d[0].e, d[0].g); }
};
template <> struct Dims<tbb::blocked_range2d<size_t>> {
    static const char* flavour() { return "2"; }
    static std::vector<BR> get(const tbb::blocked_range2d<size_t>& r) { return {r.rows(), r.cols()}; }
    static tbb::blocked_range2d<size_t> make(const std::vector<Dim>& d) { return {d[0].b, d[0].e, d[0].g, d[1].b, d[1].e, d[1].g}; }
};
template <> struct Dims<tbb::blocked_range3d<size_t>> {
    static const char* flavour() { return "3"; }
    static std::vector<BR> get(const tbb::blocked_range3d<size_t>& r) { return {r.pages(), r.rows(), r.cols()}; }
    static tbb::blocked_range3d<size_t> make(const std::vector<Dim>& d) { return {d[0].b, d[0].e, d[0].g, d[1].b, d[1].e, d[1].g, d[2].b, d[2].e, d[2].g}; }
};
template <unsigned N> struct Dims<tbb::blocked_nd_range<size_t, N>> {
    typedef tbb::blocked_nd_range<size_t, N> R;
    static const char* flavour() { return "n"; }
    static std::vector<BR> get(const R& r) { std::vector<BR> v; for (unsigned i = 0; i < N; ++i) v.push_back(r.dim(i)); return v; }
    template <size_t... Is> static R make_impl(const std::vector<Dim>& d, tbb::detail::index_sequence<Is...>) { return R(BR(d[Is].b, d[Is].e, d[Is].g)...); }
    static R make(const std::vector<Dim>& d) { return make_impl(d, tbb::detail::make_index_sequence<N>()); }
};

struct PartFields { ull divisor = 0, depth = 0, delay = 0, head = 0, max_aff = 0; };
static PartFields fields(const simple_partition_type&) { return {}; }
static PartFields fields(const auto_partition_type& p) { return {p.my_divisor, p.my_max_depth, ull(p.my_delay), 0, 0}; }
static PartFields fields(const static_partition_type& p) { return {p.my_divisor, 0, 0, p.my_head, p.my_max_affinity}; }
static PartFields fields(const affinity_partition_type& p) { return {p.my_divisor, p.my_max_depth, ull(p.my_delay), p.my_head, p.my_max_affinity}; }
static std::string show(const PartFields& f) {
    return std::to_string(f.divisor) + " " + std::to_string(f.depth) + " " + std::to_string(f.delay) + " " + std::to_string(f.head) + " " + std::to_string(f.max_aff);
}
static const char* kind_name(const tbb::simple_partitioner&) { return "simple"; }
static const char* kind_name(const tbb::auto_partitioner&) { return "auto"; }
static const char* kind_name(const tbb::static_partitioner&) { return "static"; }
static const char* kind_name(const tbb::affinity_partitioner&) { return "affinity"; }

struct TaskLog {
    std::string init;
    std::vector<int> hooks, cancels;
    std::vector<std::string> events;
};

// --- global monitors ---------------------------------------------------------------------------
static std::vector<Dim> root_dims;
static std::vector<std::vector<std::pair<size_t, size_t>>> chunks;
static std::vector<unsigned char> counters;
static bool count_elems = false;
static ull out_of_bounds = 0, empty_chunks = 0;

static std::string dims_be(const std::vector<BR>& v) {
    std::string s;
    for (size_t i = 0; i < v.size(); ++i) s += (i ? " " : "") + std::to_string(v[i].begin()) + " " + std::to_string(v[i].end());
    return s;
}
static std::string dims_beg(const std::vector<BR>& v) {
    std::string s;
    for (size_t i = 0; i < v.size(); ++i) s += (i ? " " : "") + std::to_string(v[i].begin()) + " " + std::to_string(v[i].end()) + " " + std::to_string(v[i].grainsize());
    return s;
}

static std::string current_scenario;
static void runaway() { printf("RUNAWAY %s\n", current_scenario.c_str()); fflush(stdout); }
static void record_chunk(const std::vector<BR>& v) {
    if (chunks.size() > 3000000) {   // a loop that never ends (e.g. an indivisible range that keeps being split)
        printf("RUNAWAY %s\n", current_scenario.c_str());
        fflush(stdout);
        _Exit(4);
    }
    std::vector<std::pair<size_t, size_t>> c;
    bool empty = false, oob = false;
    for (size_t i = 0; i < v.size(); ++i) {
        c.push_back({v[i].begin(), v[i].end()});
        if (!(v[i].begin() < v[i].end())) empty = true;
        if (v[i].begin() < root_dims[i].b || v[i].end() > root_dims[i].e) oob = true;
    }
    chunks.push_back(c);
    if (empty) { empty_chunks++; return; }
    if (oob) { out_of_bounds++; return; }
    if (!count_elems) return;
    // visit every point of the box
    std::vector<size_t> idx(v.size());
    for (size_t i = 0; i < v.size(); ++i) idx[i] = v[i].begin();
    for (;;) {
        size_t flat = 0;
        for (size_t i = 0; i < v.size(); ++i) flat = flat * (root_dims[i].e - root_dims[i].b) + (idx[i] - root_dims[i].b);
        if (counters[flat] < 255) counters[flat]++;
        size_t d = v.size();
        while (d > 0) {
            --d;
            if (++idx[d] < v[d].end()) break;
            idx[d] = v[d].begin();
            if (d == 0) return;
        }
    }
}

template <typename Range, typename Partitioner>
struct Scenario {
    struct Body {
        void operator()(const Range& r) const {
            std::vector<BR> v = Dims<Range>::get(r);
            mock::Frame* cur = mock::g.stack.back();
            static_cast<TaskLog*>(cur->user)->events.push_back("B " + dims_be(v));
            record_chunk(v);
            mock::yield();
        }
    };
    typedef typename std::conditional<std::is_same<Partitioner, tbb::affinity_partitioner>::value, Partitioner, const Partitioner>::type part_arg_t;
    typedef start_for<Range, Body, part_arg_t> task_t;

    static bool peer_flag(mock::Frame* f) {
        if (!f) return false;
        task_t* t = static_cast<task_t*>(f->t);
        if (f->is_root && f->spawns == 0) return false;   // parent is the wait_node, never read by the code
        return static_cast<tree_node*>(t->my_parent)->m_child_stolen.load(std::memory_order_relaxed);
    }
    static void on_start(mock::Frame& f) {
        task_t* t = static_cast<task_t*>(f.t);
        TaskLog* lg = new TaskLog;
        f.user = lg;
        std::vector<BR> v = Dims<Range>::get(t->my_range);
        bool stolen = f.exec != f.orig;
        bool ref2 = t->my_parent->m_ref_count.load(std::memory_order_relaxed) >= 2;
        lg->init = std::string(kind_name(Partitioner())) + " " + Dims<Range>::flavour() + " " + std::to_string(v.size()) + " " + dims_beg(v) + " " +
                   show(fields(t->my_partition)) + " " + (stolen ? "1" : "0") + " " + (ref2 ? "1" : "0");
    }
    static void on_end(mock::Frame& f) {
        TaskLog* lg = static_cast<TaskLog*>(f.user);
        std::string s = "T " + lg->init + " H";
        for (int b : lg->hooks) s += b ? " 1" : " 0";
        s += " C";
        for (int b : lg->cancels) s += b ? " 1" : " 0";
        s += " =>";
        for (size_t i = 0; i < lg->events.size(); ++i) s += (i ? " ; " : " ") + lg->events[i];
        puts(s.c_str());
        delete lg;
    }
    static void on_spawn(mock::Frame* cur, task& child) {
        task_t& c = static_cast<task_t&>(child);
        if (cur) static_cast<TaskLog*>(cur->user)->events.push_back("S " + dims_be(Dims<Range>::get(c.my_range)) + " | " + show(fields(c.my_partition)));
    }
    static void after_callout(mock::Frame* cur) {
        if (cur) static_cast<TaskLog*>(cur->user)->hooks.push_back(peer_flag(cur) ? 1 : 0);
    }
    static void on_cancel_read(mock::Frame* cur, bool a) {
        if (cur) static_cast<TaskLog*>(cur->user)->cancels.push_back(a ? 1 : 0);
    }
    static void run(const std::vector<Dim>& d) {
        mock::g.on_runaway = runaway;
        mock::g.on_start = on_start; mock::g.on_end = on_end; mock::g.on_spawn = on_spawn;
        mock::g.after_callout = after_callout; mock::g.on_cancel_read = on_cancel_read;
        Range r = Dims<Range>::make(d);
        Partitioner p;
        tbb::task_group_context ctx;
        tbb::parallel_for(r, Body(), p, ctx);
    }
};

template <typename Range> static bool run_kind(const std::string& kind, const std::vector<Dim>& d) {
    if (kind == "simple") Scenario<Range, tbb::simple_partitioner>::run(d);
    else if (kind == "auto") Scenario<Range, tbb::auto_partitioner>::run(d);
    else if (kind == "static") Scenario<Range, tbb::static_partitioner>::run(d);
    else if (kind == "affinity") Scenario<Range, tbb::affinity_partitioner>::run(d);
    else return false;
    return true;
}

int main() {
    std::string line;
    while (std::getline(std::cin, line)) {
        current_scenario = line;
        std::istringstream in(line);
        std::string op, kind, fl;
        unsigned k = 0;
        if (!(in >> op)) continue;
        if (op != "loop" || !(in >> kind >> fl >> k) || k < 1 || k > 5) { puts("bad-op"); puts("END"); continue; }
        std::vector<Dim> d;
        bool ok = true;
        for (unsigned i = 0; i < k; ++i) { Dim x; if (!(in >> x.b >> x.e >> x.g) || x.b > x.e || x.g == 0) ok = false; d.push_back(x); }
        long P, sp, sb, sl, ca; ull seed;
        if (!ok || !(in >> P >> seed >> sp >> sb >> sl >> ca) || P < 1) { puts("bad-op"); puts("END"); continue; }
        mock::reset(int(P), seed);
        mock::g.steal_at_spawn = unsigned(sp); mock::g.steal_at_body = unsigned(sb); mock::g.steal_late = unsigned(sl); mock::g.cancel_after = ca;
        root_dims = d; chunks.clear(); out_of_bounds = empty_chunks = 0;
        long double vol = 1;
        for (auto& x : d) vol *= (long double)(x.e - x.b);
        count_elems = vol <= (long double)(1u << 22);
        counters.assign(count_elems ? size_t(vol) : 0, 0);
        bool known = false;
        if (fl == "1" && k == 1) known = run_kind<BR>(kind, d);
        else if (fl == "2" && k == 2) known = run_kind<tbb::blocked_range2d<size_t>>(kind, d);
        else if (fl == "3" && k == 3) known = run_kind<tbb::blocked_range3d<size_t>>(kind, d);
        else if (fl == "n" && k == 1) known = run_kind<tbb::blocked_nd_range<size_t, 1>>(kind, d);
        else if (fl == "n" && k == 2) known = run_kind<tbb::blocked_nd_range<size_t, 2>>(kind, d);
        else if (fl == "n" && k == 3) known = run_kind<tbb::blocked_nd_range<size_t, 3>>(kind, d);
        else if (fl == "n" && k == 4) known = run_kind<tbb::blocked_nd_range<size_t, 4>>(kind, d);
        if (!known) { puts("bad-op"); puts("END"); continue; }
        std::string elems = "skipped";
        if (count_elems) {
            elems = "ok";
            for (size_t i = 0; i < counters.size(); ++i)
                if (counters[i] != 1) { elems = "bad:" + std::to_string(i) + ":" + std::to_string(unsigned(counters[i])); break; }
        }
        printf("M chunks=%zu empty=%llu oob=%llu elems=%s run=%ld cancelled_tasks=%ld cancelled=%d nest=%ld\n", chunks.size(), empty_chunks, out_of_bounds,
               elems.c_str(), mock::g.tasks_run, mock::g.tasks_cancelled, int(mock::g.cancelled), mock::g.max_depth_seen);
        std::string cs = "C";
        for (auto& c : chunks) { cs += " ;"; for (auto& p : c) cs += " " + std::to_string(p.first) + " " + std::to_string(p.second); }
        puts(cs.c_str());
        puts("END");
        fflush(stdout);
    }
    return 0;
}
