// E-REAL for the index form of parallel_for: the real overloads
//     parallel_for(first, last [, step], f [, partitioner] [, context])
// for every Index type, with a functor that records every index it is given.
//   idx <T> <first> <last> <step> <form> <P>
//       T     i16 | u16 | i32 | u32 | i64 | u64     (short, unsigned short, int, unsigned, long long, unsigned long long)
//       form  3 letters: partitioner d(efault: none passed) | s(imple) | a(uto) | t (static) | f (affinity),
//             context n(one) | c (task_group_context passed), step s (explicit) | 1 (overload without step; needs step == 1)
//       P     task_arena concurrency
//   -> X calls=<n> expect=<n> outside=<n> dup=<n> miss=<n> sum=<u64> sq=<u64> bad=<first offending index or -> thrown=<0|1> runaway=<0|1> vals=<sorted, when calls <= 64>
//      expect is the mathematical trip count computed here in 128-bit arithmetic (independent of the library);
//      sum / sq = sum of the indices / of their squares modulo 2^64 (compared by the caller with the closed forms);
//      for expect <= 2^22 every index has its own counter (exact dup / miss detection), otherwise calls/sum/sq only.
#include <oneapi/tbb/parallel_for.h>
#include <oneapi/tbb/task_arena.h>
#include <oneapi/tbb/task_group.h>
#include <algorithm>
#include <atomic>
#include <chrono>
#include <cstdio>
#include <cstdlib>
#include <iostream>
#include <memory>
#include <mutex>
#include <sstream>
#include <stdexcept>
#include <string>
#include <thread>
#include <vector>

typedef __int128 i128;
typedef unsigned long long ull;

static bool parse128(const std::string& s, i128& out) {
    if (s.empty()) return false;
    size_t i = 0; bool neg = false;
    if (s[0] == '-') { neg = true; i = 1; }
    if (i >= s.size() || s.size() - i > 30) return false;
    i128 v = 0;
    for (; i < s.size(); ++i) { if (s[i] < '0' || s[i] > '9') return false; v = v * 10 + (s[i] - '0'); }
    out = neg ? -v : v;
    return true;
}
static std::string show128(i128 v) {
    if (v == 0) return "0";
    bool neg = v < 0; if (neg) v = -v;
    std::string s; while (v > 0) { s.push_back(char('0' + int(v % 10))); v /= 10; }
    if (neg) s.push_back('-');
    std::reverse(s.begin(), s.end());
    return s;
}

// per-thread accumulators (no TBB facility is used by the monitor)
struct Acc { ull calls = 0, sum = 0, sq = 0, outside = 0; i128 bad = 0; bool has_bad = false; std::vector<i128> vals; char pad[64]; };
static std::mutex acc_mx;
static std::vector<Acc*> accs;
static thread_local Acc* tl_acc = nullptr;
static Acc& my_acc() {
    if (!tl_acc) { tl_acc = new Acc; std::lock_guard<std::mutex> l(acc_mx); accs.push_back(tl_acc); }
    return *tl_acc;
}

static std::atomic<long long> deadline_ms{0};
static long long now_ms() { return std::chrono::duration_cast<std::chrono::milliseconds>(std::chrono::steady_clock::now().time_since_epoch()).count(); }

struct Case {
    i128 first, last, step, expect; ull limit;
    std::unique_ptr<std::atomic<unsigned char>[]> cnt;      // expect <= 2^22
    std::atomic<ull> total{0};
    std::atomic<bool> runaway{false};
};
static Case* g_case = nullptr;

template <typename Index> struct Functor {
    void operator()(Index v) const {
        Case& c = *g_case;
        Acc& a = my_acc();
        i128 w = (i128)v;
        a.calls++; a.sum += (ull)w; a.sq += (ull)w * (ull)w;
        if (a.vals.size() < 65) a.vals.push_back(w);
        if ((a.calls & 0xfff) == 1 || c.expect < 4096) {
            ull t = c.total.fetch_add(c.expect < 4096 ? 1 : 0x1000) ;
            if (t > c.limit) { c.runaway = true; }
        }
        bool in = w >= c.first && w < c.last && (w - c.first) % c.step == 0;
        if (!in) { a.outside++; if (!a.has_bad) { a.has_bad = true; a.bad = w; } return; }
        if (c.cnt) {
            std::atomic<unsigned char>& x = c.cnt[size_t((w - c.first) / c.step)];
            unsigned char o = x.load(std::memory_order_relaxed);
            while (o < 255 && !x.compare_exchange_weak(o, (unsigned char)(o + 1))) {}
        }
    }
};

template <typename Index, typename... Part> static void go(Index first, Index last, Index step, char ctx, char sf, Part&... part) {
    Functor<Index> f;
    tbb::task_group_context tgc;
    if (ctx == 'c') { if (sf == '1') tbb::parallel_for(first, last, f, part..., tgc); else tbb::parallel_for(first, last, step, f, part..., tgc); }
    else { if (sf == '1') tbb::parallel_for(first, last, f, part...); else tbb::parallel_for(first, last, step, f, part...); }
}

template <typename Index> static bool call(Index first, Index last, Index step, char part, char ctx, char sf) {
    const tbb::simple_partitioner sp; const tbb::auto_partitioner aup; const tbb::static_partitioner stp;
    tbb::affinity_partitioner afp;
    switch (part) {
    case 'd': go(first, last, step, ctx, sf); break;
    case 's': go(first, last, step, ctx, sf, sp); break;
    case 'a': go(first, last, step, ctx, sf, aup); break;
    case 't': go(first, last, step, ctx, sf, stp); break;
    case 'f': go(first, last, step, ctx, sf, afp); break;
    default: return false;
    }
    return true;
}

template <typename Index> static bool run_case(i128 first, i128 last, i128 step, const std::string& form, int P, bool& thrown) {
    bool ok = true;
    tbb::task_arena arena(P);
    try {
        arena.execute([&] { ok = call<Index>((Index)first, (Index)last, (Index)step, form[0], form[1], form[2]); });
    } catch (const std::invalid_argument&) { thrown = true; }
    return ok;
}

int main(int argc, char** argv) {
    long long limit_ms = argc > 1 ? atoll(argv[1]) * 1000 : 120000;
    std::thread([] {
        for (;;) {
            std::this_thread::sleep_for(std::chrono::milliseconds(200));
            long long d = deadline_ms.load();
            bool ra = g_case && g_case->runaway.load();
            if ((d && now_ms() > d) || ra) { printf("X runaway=1 %s\n", ra ? "too-many-calls" : "timeout"); fflush(stdout); _Exit(4); }
        }
    }).detach();
    std::string line;
    while (std::getline(std::cin, line)) {
        deadline_ms = now_ms() + limit_ms;
        std::istringstream in(line);
        std::string op, T, sf, sl, ss, form; int P = 0;
        if (!(in >> op)) continue;
        i128 first, last, step;
        if (op != "idx" || !(in >> T >> sf >> sl >> ss >> form >> P) || !parse128(sf, first) || !parse128(sl, last) || !parse128(ss, step) || form.size() != 3 || P < 1
            || (form[1] != 'n' && form[1] != 'c') || (form[2] != 's' && form[2] != '1') || (form[2] == '1' && step != 1)) { puts("bad-op"); fflush(stdout); continue; }
        int bits = T == "i16" || T == "u16" ? 16 : T == "i32" || T == "u32" ? 32 : T == "i64" || T == "u64" ? 64 : 0;
        bool sg = T.size() == 3 && T[0] == 'i';
        if (!bits || (T[0] != 'i' && T[0] != 'u')) { puts("bad-op"); fflush(stdout); continue; }
        i128 lo = sg ? -((i128)1 << (bits - 1)) : 0, hi = sg ? ((i128)1 << (bits - 1)) - 1 : ((i128)1 << bits) - 1;
        if (first < lo || first > hi || last < lo || last > hi || step < lo || step > hi) { puts("bad-op"); fflush(stdout); continue; }
        Case c;
        c.first = first; c.last = last; c.step = step > 0 ? step : 1;
        c.expect = (step > 0 && first < last) ? (last - first - 1) / step + 1 : 0;
        c.limit = (ull)c.expect + 100000;
        if (c.expect <= (1 << 22) && c.expect > 0) { c.cnt.reset(new std::atomic<unsigned char>[size_t(c.expect)]); for (size_t i = 0; i < size_t(c.expect); ++i) c.cnt[i].store(0); }
        { std::lock_guard<std::mutex> l(acc_mx); for (Acc* a : accs) { a->calls = a->sum = a->sq = a->outside = 0; a->has_bad = false; a->vals.clear(); } }
        g_case = &c;
        bool thrown = false, known = false;
        if (T == "i16") known = run_case<short>(first, last, step, form, P, thrown);
        else if (T == "u16") known = run_case<unsigned short>(first, last, step, form, P, thrown);
        else if (T == "i32") known = run_case<int>(first, last, step, form, P, thrown);
        else if (T == "u32") known = run_case<unsigned>(first, last, step, form, P, thrown);
        else if (T == "i64") known = run_case<long long>(first, last, step, form, P, thrown);
        else if (T == "u64") known = run_case<unsigned long long>(first, last, step, form, P, thrown);
        g_case = nullptr;
        if (!known) { puts("bad-op"); fflush(stdout); continue; }
        ull calls = 0, sum = 0, sq = 0, outside = 0, dup = 0, miss = 0; bool has_bad = false; i128 bad = 0; std::vector<i128> vals;
        { std::lock_guard<std::mutex> l(acc_mx);
          for (Acc* a : accs) { calls += a->calls; sum += a->sum; sq += a->sq; outside += a->outside; if (a->has_bad && !has_bad) { has_bad = true; bad = a->bad; }
                                vals.insert(vals.end(), a->vals.begin(), a->vals.end()); } }
        if (c.cnt) for (size_t i = 0; i < size_t(c.expect); ++i) {
            unsigned v = c.cnt[i].load();
            if (v == 0) { miss++; if (!has_bad) { has_bad = true; bad = first + (i128)i * c.step; } }
            else if (v > 1) { dup++; if (!has_bad) { has_bad = true; bad = first + (i128)i * c.step; } }
        }
        std::string vs = "-";
        if (calls <= 64) { std::sort(vals.begin(), vals.end()); vs = ""; for (size_t i = 0; i < vals.size(); ++i) vs += (i ? "," : "") + show128(vals[i]); if (vs.empty()) vs = "none"; }
        printf("X calls=%llu expect=%s outside=%llu dup=%llu miss=%llu sum=%llu sq=%llu bad=%s thrown=%d runaway=%d vals=%s\n", calls, show128(c.expect).c_str(), outside, dup, miss,
               sum, sq, has_bad ? show128(bad).c_str() : "-", thrown ? 1 : 0, c.runaway.load() ? 1 : 0, vs.c_str());
        fflush(stdout);
    }
    return 0;
}
