// E-SHIM happens-before monitor (header-only; works on a finished verif::Result log).
//
// The controlled scheduler makes every execution sequentially consistent, so a memory order that is too weak never
// shows up as a wrong VALUE on this hardware.  This monitor recovers what the C++ memory model says about the run
// instead: it recomputes happens-before from the memory orders THE CODE PASSED to its atomic accesses (the shim logs
// them) and reports two conflicting ghost accesses (harness-declared plain accesses: `verif::note("gw", cell)` = write,
// `verif::note("gr", cell)` = read) that are not ordered by it: a data race of the abstract machine, i.e. a visibility
// clause ("the next holder / the waiter sees the writes") that the code's orders do not deliver.
//
// Rules (C++20 [intro.races], [atomics.order], [atomics.fences]; reads-from = the last write in the log, since the run is SC):
//   * sequenced-before: program order of a thread;
//   * a store / RMW with release (or stronger) order heads a release sequence on its location; an RMW (any order)
//     by any thread continues it; a plain-order (relaxed) STORE ends it (but publishes the thread's last release fence);
//   * a load / RMW with acquire (or stronger, or consume) order that reads from a release sequence synchronizes with
//     its head(s); a relaxed load remembers what it read for a later acquire fence of its thread;
//   * release fence + later relaxed store/RMW, relaxed load/RMW + later acquire fence: as in [atomics.fences];
//   * seq_cst fences are totally ordered and that order is treated as happens-before between the fences (this is
//     stronger than the standard's coherence wording and can only hide races, never invent one);
//   * the first event of a thread created DURING the run happens after everything logged before it (creation is not
//     logged: over-approximation, can only hide races); the initial threads inherit nothing;
//   * futex wait / wake carry no ordering by themselves.
// Not modelled: consume dependencies (treated as acquire), mixed-size accesses, non-atomic accesses other than ghosts.
#pragma once
#include "verif_sched.h"
#include <cstring>
#include <map>
#include <string>
#include <vector>

namespace verif {

struct HbRace {
    size_t first, second;       // indices into the log of the two unordered ghost accesses
    int t1, t2;
    uint64_t cell;
    bool w1, w2;
};

struct HbStats { size_t ghost = 0, sync_edges = 0, rel_heads = 0; };

// n_initial: the threads 0..n_initial-1 are the bodies given to verif::run (they exist from the start: nothing is inherited); a thread with a
// larger id was created during the run and its first event happens after everything logged before it
inline std::vector<HbRace> hb_check(const std::vector<Event>& log, size_t n_initial, HbStats* st = nullptr, size_t max_races = 4) {
    typedef std::vector<uint32_t> VC;
    auto join = [](VC& a, const VC& b) { if (a.size() < b.size()) a.resize(b.size(), 0); for (size_t i = 0; i < b.size(); ++i) if (b[i] > a[i]) a[i] = b[i]; };
    auto leq_epoch = [](int t, uint32_t c, const VC& v) { return (size_t)t < v.size() && c <= v[t]; };
    std::vector<VC> vc;                  // per thread
    std::vector<VC> fence_rel, pend_acq; // per thread: clock at the last release fence; joined heads read by relaxed loads
    std::vector<bool> started;
    VC all, sc_fence;
    std::map<const void*, VC> rel;       // per location: join of the heads of the release sequences the current value belongs to
    struct Cell { int wt = -1; uint32_t wc = 0; size_t wi = 0; VC rd; std::vector<size_t> ri; };
    std::map<uint64_t, Cell> cells;
    std::vector<HbRace> races;
    auto need = [&](int t) {
        if ((size_t)t >= vc.size()) { vc.resize(t + 1); fence_rel.resize(t + 1); pend_acq.resize(t + 1); started.resize(t + 1, false); }
        if (!started[t]) { started[t] = true; if ((size_t)t >= n_initial) join(vc[t], all); }
        if (vc[t].size() <= (size_t)t) vc[t].resize(t + 1, 0);
    };
    // memory_order values as passed by libstdc++: relaxed 0, consume 1, acquire 2, release 3, acq_rel 4, seq_cst 5
    auto is_acq = [](int o) { return o == 1 || o == 2 || o == 4 || o == 5; };
    auto is_rel = [](int o) { return o == 3 || o == 4 || o == 5; };
    for (size_t i = 0; i < log.size(); ++i) {
        const Event& e = log[i];
        if (e.tid < 0) continue;
        int t = e.tid;
        need(t);
        vc[t][t]++;
        bool reads = false, writes = false;
        switch (e.kind) {
        case K_LOAD: reads = true; break;
        case K_STORE: writes = true; break;
        case K_XCHG: case K_FADD: case K_FSUB: case K_FAND: case K_FOR: case K_FXOR: reads = writes = true; break;
        case K_CAS: reads = true; writes = e.ok != 0; break;
        default: break;
        }
        if (e.kind == K_FENCE) {
            if (is_acq(e.order)) { join(vc[t], pend_acq[t]); }
            if (e.order == 5) { join(vc[t], sc_fence); sc_fence = vc[t]; }
            if (is_rel(e.order)) fence_rel[t] = vc[t];
        } else if (reads || writes) {
            bool rmw = reads && writes;
            // a failed CAS is a load with the failure order; the shim logs the order that applied
            if (reads) {
                auto it = rel.find(e.addr);
                if (it != rel.end() && !it->second.empty()) {
                    if (is_acq(e.order)) { join(vc[t], it->second); if (st) st->sync_edges++; }
                    else join(pend_acq[t], it->second);
                }
            }
            if (writes) {
                VC& r = rel[e.addr];
                if (!rmw) r.clear();                                   // a store starts afresh (ends other threads' release sequences)
                if (is_rel(e.order)) { join(r, vc[t]); if (st) st->rel_heads++; }
                else if (!fence_rel[t].empty()) join(r, fence_rel[t]);     // relaxed write after a release fence
            }
        } else if (e.kind == K_NOTE && e.tag && (!std::strcmp(e.tag, "gw") || !std::strcmp(e.tag, "gr"))) {
            bool w = e.tag[1] == 'w';
            Cell& c = cells[e.a];
            if (st) st->ghost++;
            if (c.wt >= 0 && c.wt != t && !leq_epoch(c.wt, c.wc, vc[t]) && races.size() < max_races)
                races.push_back({c.wi, i, c.wt, t, e.a, true, w});
            if (w) {
                for (size_t u = 0; u < c.rd.size(); ++u)
                    if ((int)u != t && c.rd[u] && !leq_epoch((int)u, c.rd[u], vc[t]) && races.size() < max_races)
                        races.push_back({c.ri[u], i, (int)u, t, e.a, false, true});
                c.wt = t; c.wc = vc[t][t]; c.wi = i; c.rd.clear(); c.ri.clear();
            } else {
                if (c.rd.size() <= (size_t)t) { c.rd.resize(t + 1, 0); c.ri.resize(t + 1, 0); }
                c.rd[t] = vc[t][t]; c.ri[t] = i;
            }
        }
        join(all, vc[t]);
    }
    return races;
}

inline std::string hb_describe(const std::vector<Event>& log, const HbRace& r) {
    return std::string("HB-RACE ghost cell ") + std::to_string(r.cell) + ": " + (r.w1 ? "write" : "read") + " by thread " + std::to_string(r.t1) + " (event " +
           std::to_string(r.first) + ") and " + (r.w2 ? "write" : "read") + " by thread " + std::to_string(r.t2) + " (event " + std::to_string(r.second) +
           ") are not ordered by happens-before under the memory orders the code passed";
}

} // namespace verif
