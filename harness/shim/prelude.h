// E-SHIM prelude: force-included (-include) in front of every translation unit that is to run under the
// controlled scheduler.  It pre-includes the standard library, defines std::verif_atomic<T> (same size and
// layout as std::atomic<T>) whose every access is a scheduling point, and then renames the token `atomic`.
#pragma once
#ifndef VERIF_SHIM_PRELUDE
#define VERIF_SHIM_PRELUDE
#include <algorithm>
#include <array>
#include <atomic>
#include <bitset>
#include <cassert>
#include <cerrno>
#include <chrono>
#include <climits>
#include <cmath>
#include <condition_variable>
#include <cstdarg>
#include <cstddef>
#include <cstdint>
#include <cstdio>
#include <cstdlib>
#include <cstring>
#include <deque>
#include <exception>
#include <forward_list>
#include <functional>
#include <future>
#include <initializer_list>
#include <iomanip>
#include <iostream>
#include <iterator>
#include <limits>
#include <list>
#include <map>
#include <memory>
#include <mutex>
#include <new>
#include <numeric>
#include <queue>
#include <random>
#include <set>
#include <sstream>
#include <stack>
#include <stdexcept>
#include <string>
#include <thread>
#include <tuple>
#include <type_traits>
#include <typeinfo>
#include <unordered_map>
#include <unordered_set>
#include <utility>
#include <vector>
#if __cplusplus >= 201703L
#include <optional>
#include <string_view>
#include <variant>
#include <any>
#endif
#include <immintrin.h>
#include <pthread.h>
#include <sched.h>
#include <semaphore.h>
#include <unistd.h>
#include <sys/syscall.h>
#include <sys/mman.h>
#include <sys/time.h>
#include <sys/resource.h>
#include <dlfcn.h>
#include <ucontext.h>
#include <signal.h>
#include "verif_sched.h"

namespace verif {
template <class T> inline uint64_t bits_of(const T& v) {
    uint64_t r = 0;
    if (sizeof(T) <= 8) std::memcpy(&r, &v, sizeof(T));
    return r;
}
}

namespace std {
template <class T>
struct verif_atomic {
    std::atomic<T> a;
    using value_type = T;
    static constexpr bool is_always_lock_free = std::atomic<T>::is_always_lock_free;
    verif_atomic() noexcept = default;
    constexpr verif_atomic(T v) noexcept : a(v) {}
    verif_atomic(const verif_atomic&) = delete;
    verif_atomic& operator=(const verif_atomic&) = delete;
    bool is_lock_free() const noexcept { return a.is_lock_free(); }

    T load(memory_order o = memory_order_seq_cst) const noexcept {
        ::verif::pre(::verif::K_LOAD, &a, (int)o);
        T v = a.load(o);
        ::verif::post(::verif::K_LOAD, &a, (int)o, ::verif::bits_of(v), 0, 1);
        return v;
    }
    T load(memory_order o = memory_order_seq_cst) const volatile noexcept { return const_cast<const verif_atomic*>(this)->load(o); }
    void store(T v, memory_order o = memory_order_seq_cst) noexcept {
        ::verif::pre(::verif::K_STORE, &a, (int)o);
        T old = a.load(memory_order_relaxed);          // safe: the caller holds the baton
        a.store(v, o);
        ::verif::post(::verif::K_STORE, &a, (int)o, ::verif::bits_of(v), ::verif::bits_of(old), 1);
    }
    operator T() const noexcept { return load(); }
    T operator=(T v) noexcept { store(v); return v; }
    T exchange(T v, memory_order o = memory_order_seq_cst) noexcept {
        ::verif::pre(::verif::K_XCHG, &a, (int)o);
        T old = a.exchange(v, o);
        ::verif::post(::verif::K_XCHG, &a, (int)o, ::verif::bits_of(old), ::verif::bits_of(v), 1);
        return old;
    }
    bool compare_exchange_strong(T& expected, T desired, memory_order s, memory_order f) noexcept {
        ::verif::pre(::verif::K_CAS, &a, (int)s);
        T e0 = expected;
        bool ok = a.compare_exchange_strong(expected, desired, s, f);
        ::verif::post(::verif::K_CAS, &a, (int)s, ::verif::bits_of(e0), ok ? ::verif::bits_of(desired) : ::verif::bits_of(expected), ok ? 1 : 0);
        return ok;
    }
    bool compare_exchange_strong(T& expected, T desired, memory_order o = memory_order_seq_cst) noexcept {
        return compare_exchange_strong(expected, desired, o, o == memory_order_acq_rel ? memory_order_acquire : o == memory_order_release ? memory_order_relaxed : o);
    }
    // weak CAS never fails spuriously under the shim
    bool compare_exchange_weak(T& expected, T desired, memory_order s, memory_order f) noexcept { return compare_exchange_strong(expected, desired, s, f); }
    bool compare_exchange_weak(T& expected, T desired, memory_order o = memory_order_seq_cst) noexcept { return compare_exchange_strong(expected, desired, o); }

#define VERIF_RMW(NAME, KIND, ARGT)                                                                     \
    template <class U = T, class A = std::atomic<U>>                                                     \
    auto NAME(ARGT x, memory_order o = memory_order_seq_cst) noexcept -> decltype(std::declval<A&>().NAME(x, o)) { \
        ::verif::pre(::verif::KIND, &a, (int)o);                                                         \
        T old = a.NAME(x, o);                                                                            \
        T now = a.load(memory_order_relaxed);                                                            \
        ::verif::post(::verif::KIND, &a, (int)o, ::verif::bits_of(old), ::verif::bits_of(now), 1);       \
        return old;                                                                                      \
    }
    using diff_t = typename std::conditional<std::is_pointer<T>::value, std::ptrdiff_t, T>::type;
    VERIF_RMW(fetch_add, K_FADD, diff_t)
    VERIF_RMW(fetch_sub, K_FSUB, diff_t)
    VERIF_RMW(fetch_and, K_FAND, T)
    VERIF_RMW(fetch_or, K_FOR, T)
    VERIF_RMW(fetch_xor, K_FXOR, T)
#undef VERIF_RMW
    template <class U = T> auto operator++() noexcept -> decltype(std::declval<std::atomic<U>&>().fetch_add(1), U()) { return fetch_add(1) + 1; }
    template <class U = T> auto operator++(int) noexcept -> decltype(std::declval<std::atomic<U>&>().fetch_add(1), U()) { return fetch_add(1); }
    template <class U = T> auto operator--() noexcept -> decltype(std::declval<std::atomic<U>&>().fetch_sub(1), U()) { return fetch_sub(1) - 1; }
    template <class U = T> auto operator--(int) noexcept -> decltype(std::declval<std::atomic<U>&>().fetch_sub(1), U()) { return fetch_sub(1); }
    template <class U = T> auto operator+=(diff_t x) noexcept -> decltype(std::declval<std::atomic<U>&>().fetch_add(x), U()) { return fetch_add(x) + x; }
    template <class U = T> auto operator-=(diff_t x) noexcept -> decltype(std::declval<std::atomic<U>&>().fetch_sub(x), U()) { return fetch_sub(x) - x; }
    template <class U = T> auto operator&=(T x) noexcept -> decltype(std::declval<std::atomic<U>&>().fetch_and(x), U()) { return fetch_and(x) & x; }
    template <class U = T> auto operator|=(T x) noexcept -> decltype(std::declval<std::atomic<U>&>().fetch_or(x), U()) { return fetch_or(x) | x; }
    template <class U = T> auto operator^=(T x) noexcept -> decltype(std::declval<std::atomic<U>&>().fetch_xor(x), U()) { return fetch_xor(x) ^ x; }
};
template <class T> constexpr bool verif_atomic<T>::is_always_lock_free;

inline void verif_atomic_thread_fence(memory_order o) noexcept {
    ::verif::pre(::verif::K_FENCE, nullptr, (int)o);
    std::atomic_thread_fence(o);
    ::verif::post(::verif::K_FENCE, nullptr, (int)o, 0, 0, 1);
}
namespace this_thread { inline void verif_yield() noexcept { ::verif::yield_point(); } }
} // namespace std

static inline void verif_mm_pause() { ::verif::pause_point(); }

namespace std { namespace chrono {
// virtual monotonic clock for code compiled under the shim (timed spin loops must not depend on wall time)
struct verif_steady_clock {
    using duration = std::chrono::nanoseconds;
    using rep = duration::rep;
    using period = duration::period;
    using time_point = std::chrono::time_point<verif_steady_clock, duration>;
    static constexpr bool is_steady = true;
    static time_point now() noexcept { return time_point(duration((rep)::verif::virtual_now_ns())); }
};
} }

namespace std {
// scheduler-aware replacement of std::mutex for code compiled under the shim (a controlled thread must never block
// in the kernel while it holds the baton): a spin lock whose every attempt is a scheduling point.
class verif_mutex {
    std::atomic<bool> f{false};
public:
    constexpr verif_mutex() noexcept = default;
    verif_mutex(const verif_mutex&) = delete;
    verif_mutex& operator=(const verif_mutex&) = delete;
    bool try_lock() noexcept {
        ::verif::pre(::verif::K_XCHG, &f, 5);
        bool old = f.exchange(true);
        ::verif::post(::verif::K_XCHG, &f, 5, old, 1, 1);
        return !old;
    }
    void lock() noexcept { while (!try_lock()) ::verif::yield_point(); }
    void unlock() noexcept {
        ::verif::pre(::verif::K_STORE, &f, 3);
        f.store(false);
        ::verif::post(::verif::K_STORE, &f, 3, 0, 1, 1);
    }
};
}
extern "C" int verif_pthread_create(pthread_t*, const pthread_attr_t*, void* (*)(void*), void*);
extern "C" int verif_pthread_join(pthread_t, void**);

#define atomic verif_atomic
#define atomic_thread_fence verif_atomic_thread_fence
#define _mm_pause verif_mm_pause
#define yield verif_yield
#define syscall verif_syscall
#define mutex verif_mutex
#define steady_clock verif_steady_clock
#define pthread_create verif_pthread_create
#define pthread_join verif_pthread_join
#endif
