// E-SHIM runtime interface (no std::atomic in this header's interface; see prelude.h).
// Every atomic access of code compiled with prelude.h becomes pre(...) [scheduling point] + the real access
// + post(...) [event log].  One controlled thread runs at a time (baton), so executions are sequentially
// consistent and fully determined by the schedule.
#pragma once
#include <cstdint>
#include <cstddef>
#include <functional>
#include <string>
#include <vector>

namespace verif {

enum Kind : int { K_LOAD = 0, K_STORE, K_XCHG, K_CAS, K_FADD, K_FSUB, K_FAND, K_FOR, K_FXOR, K_FENCE,
                  K_PAUSE, K_YIELD, K_FWAIT, K_FWAKE, K_NOTE, K_START, K_END };

struct Event {
    int tid, kind, order, ok;
    const void* addr;
    uint64_t a, b;          // load: a=value read; store: a=value written b=value overwritten; xchg/fetch_*: a=old b=new; cas: a=expected b=desired(if ok) or observed
    const char* tag;        // K_NOTE only
};

// --- called by instrumented code -----------------------------------------------------------------
void pre(int kind, const volatile void* addr, int order);
void post(int kind, const volatile void* addr, int order, uint64_t a, uint64_t b, int ok);
void pause_point();
void yield_point();
void note(const char* tag, uint64_t a = 0, uint64_t b = 0);    // harness-level event (op begin/end, result)
void set_idle_round_limit(size_t n);                          // rounds of 'everybody re-spins, nothing changes' before a deadlock is declared (default 3000)
bool controlled();                                            // is the calling thread under the scheduler?
int self();                                                   // controlled thread id or -1

// --- schedules -------------------------------------------------------------------------------------
struct Schedule {
    virtual ~Schedule() {}
    // choose among `enabled` (non-empty, sorted tids); `cur` = running thread (may be absent from enabled)
    virtual int pick(int cur, const std::vector<int>& enabled, size_t step) = 0;
};
struct RandomSchedule : Schedule {       // uniform, with probability `stay`/256 of keeping the current thread
    uint64_t s; int stay;
    RandomSchedule(uint64_t seed, int stay_ = 96) : s(seed * 0x9E3779B97F4A7C15ull + 0x1234567ull), stay(stay_) {}
    uint64_t next() { s ^= s << 13; s ^= s >> 7; s ^= s << 17; return s; }
    int pick(int cur, const std::vector<int>& en, size_t) override;
};
struct ReplaySchedule : Schedule {       // explicit list of tids; after its end: lowest enabled, non-preemptive
    std::vector<int> tids;
    int pick(int cur, const std::vector<int>& en, size_t step) override;
};
// bounded-preemption depth-first enumeration (CHESS style): call run() repeatedly while next() is true
struct DfsSchedule : Schedule {
    struct Choice { std::vector<int> alts; size_t idx; int preempts; };
    std::vector<Choice> stack; size_t pos = 0; int bound; int preempts = 0;
    bool diverged = false;   // a re-execution did not reproduce the recorded prefix (non-deterministic scenario)
    explicit DfsSchedule(int bound_) : bound(bound_) {}
    int pick(int cur, const std::vector<int>& en, size_t step) override;
    bool next();      // advance to the next unexplored schedule; false when the space is exhausted
};

// --- running a scenario ----------------------------------------------------------------------------
struct Result {
    std::vector<Event> log;
    std::vector<int> schedule;      // tid chosen at every scheduling point
    bool deadlock = false;          // every live thread parked (spinning on pause/yield or in futex wait)
    std::vector<int> parked;        // who was parked at the deadlock
    size_t steps = 0;
};
// Runs the thread bodies under `sch`.  Bodies start parked; returns when all finished or on deadlock
// (on deadlock the process cannot unwind the stuck threads: the caller must print its report and _exit).
Result run(const std::vector<std::function<void()>>& bodies, Schedule& sch, size_t max_steps = 2000000);

// --- determinism helpers -------------------------------------------------------------------------------
// Call first thing in main(): re-executes the process with address-space randomisation off (once), and makes the
// time-stamp counter virtual (RDTSC traps and returns a counter that advances by a fixed amount per read).
void init_determinism(int argc, char** argv);
uint64_t virtual_now_ns();
// Install handlers for SIGSEGV/SIGBUS/SIGABRT/SIGFPE that print `CRASH signal=<n> tid=<t>` and the schedule so far, then _exit(4).
void report_crashes();     // virtual monotonic clock: advances by a fixed step per call

// --- canonical printing ------------------------------------------------------------------------------
void name_addr(const volatile void* addr, const std::string& name);   // symbol table for log output
void name_value(uint64_t v, const std::string& name);                 // pointer values -> names
void clear_names();
std::string addr_name(const void* addr);
std::string value_name(uint64_t v);
const char* kind_name(int k);
const char* order_name(int o);
std::string format_event(const Event& e);     // "<tid> <kind> <var> <order> <a> <b> <ok>"

} // namespace verif

extern "C" long verif_syscall(long nr, ...);
