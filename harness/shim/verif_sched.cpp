// E-SHIM runtime: baton scheduler, event log, futex emulation.  Compiled WITHOUT prelude.h.
#include "verif_sched.h"
#include <atomic>
#include <cstdarg>
#include <cstdio>
#include <cstdlib>
#include <cstring>
#include <map>
#include <mutex>
#include <thread>
#include <condition_variable>
#include <linux/futex.h>
#include <sys/syscall.h>
#include <unistd.h>
#include <sched.h>
#include <errno.h>
#include <signal.h>
#include <ucontext.h>
#include <sys/personality.h>
#include <sys/prctl.h>

namespace verif {

namespace {
enum TState { T_RUNNABLE, T_SPIN, T_FUTEX, T_DONE };
struct Th {
    std::atomic<int> go{0};
    TState st = T_RUNNABLE;
    const void* futex_addr = nullptr;
    uint64_t iter_epoch = 0;     // write epoch when this thread's current spin-loop iteration began
    pthread_t handle{};          // threads created through verif_pthread_create
    bool dynamic = false;
    bool join_wait = false;      // parked in verif_pthread_join
    bool accessed = false;       // did an atomic access since it last parked on a spin point
};
struct Run {
    std::vector<Th*> ths;
    Schedule* sch = nullptr;
    Result res;
    int cur = -1;
    size_t max_steps = 0;
    std::atomic<int> finished{0};
    std::atomic<int> dead{0};
    uint64_t write_epoch = 1;
    size_t idle_rounds = 0;
};
size_t g_idle_round_limit = 3000;
Run* g_run = nullptr;
thread_local int t_self = -1;

std::map<const void*, std::string> g_addr_names;
std::map<uint64_t, std::string> g_value_names;
std::map<const void*, int> g_anon;

void wait_go(Th* t) {
    int spins = 0;
    while (t->go.load(std::memory_order_acquire) == 0) {
        if (++spins < 200) { __builtin_ia32_pause(); }
        else syscall(SYS_futex, (int*)&t->go, FUTEX_WAIT_PRIVATE, 0, nullptr, nullptr, 0);
    }
    t->go.store(0, std::memory_order_relaxed);
}
void give_go(Th* t) {
    t->go.store(1, std::memory_order_release);
    syscall(SYS_futex, (int*)&t->go, FUTEX_WAKE_PRIVATE, 1, nullptr, nullptr, 0);
}

// Called by the running thread `me` at a scheduling point (or when it finishes / parks).
// Picks the next thread and transfers the baton; returns when `me` holds the baton again
// (never returns if me is done).
void reschedule(int me, bool me_done) {
    Run* r = g_run;
    if (me_done) r->idle_rounds = 0;
    if (me_done) for (auto* t : r->ths) if (t->st == T_SPIN && t->join_wait) { t->st = T_RUNNABLE; t->join_wait = false; }
    std::vector<int> en;
    for (size_t i = 0; i < r->ths.size(); ++i) if (r->ths[i]->st == T_RUNNABLE) en.push_back((int)i);
    if (en.empty()) {
        bool any_live = false, any_spin = false;
        for (auto* t : r->ths) { if (t->st != T_DONE) any_live = true; if (t->st == T_SPIN) any_spin = true; }
        if (!any_live) { r->finished.store(1); syscall(SYS_futex, (int*)&r->finished, FUTEX_WAKE_PRIVATE, 64, nullptr, nullptr, 0); return; }
        // Every live thread is parked.  Spin loops with local progress (failure counters, back-off thresholds that
        // lead to a different action after N iterations) are not fixpoints after one clean iteration, so before
        // declaring a deadlock let all spinners run again, up to `idle_round_limit` consecutive rounds in which
        // nobody changed shared state.
        if (any_spin && r->idle_rounds < g_idle_round_limit) {
            r->idle_rounds++;
            for (size_t i = 0; i < r->ths.size(); ++i) if (r->ths[i]->st == T_SPIN) { r->ths[i]->st = T_RUNNABLE; en.push_back((int)i); }
        } else {
            r->res.deadlock = true;
            for (size_t i = 0; i < r->ths.size(); ++i) if (r->ths[i]->st != T_DONE) r->res.parked.push_back((int)i);
            r->dead.store(1);
            r->finished.store(1);
            syscall(SYS_futex, (int*)&r->finished, FUTEX_WAKE_PRIVATE, 64, nullptr, nullptr, 0);
            for (;;) pause();     // park forever (the caller of run() will _exit)
        }
    }
    if (r->res.steps >= r->max_steps) {
        fprintf(stderr, "verif: step limit %zu exceeded\n", r->max_steps);
        r->res.deadlock = true; r->dead.store(2); r->finished.store(1);
        syscall(SYS_futex, (int*)&r->finished, FUTEX_WAKE_PRIVATE, 64, nullptr, nullptr, 0);
        for (;;) pause();
    }
    int nxt = r->sch->pick(me_done ? -1 : me, en, r->res.steps);
    r->res.steps++;
    r->res.schedule.push_back(nxt);
    r->cur = nxt;
    if (nxt == me) return;
    // after give_go another thread runs: r->ths may be reallocated (verif_pthread_create) or the Run torn down, so
    // take our own Th* first
    Th* mine = me_done ? nullptr : r->ths[me];
    give_go(r->ths[nxt]);
    if (me_done) return;
    wait_go(mine);
}

// does the access change shared state?  (a store/RMW that writes back the value already there does not: a thread
// spinning on `while (flag.exchange(true))` must be able to park)
bool is_write(int kind, int ok, uint64_t a, uint64_t b) {
    switch (kind) {
    case K_STORE: case K_XCHG: case K_FADD: case K_FSUB: case K_FAND: case K_FOR: case K_FXOR: return a != b;
    case K_CAS: return ok != 0 && a != b;
    default: return false;
    }
}
} // namespace

bool controlled() { return t_self >= 0 && g_run != nullptr; }
int self() { return t_self; }

void pre(int kind, const volatile void*, int) {
    if (!controlled()) return;
    (void)kind;
    reschedule(t_self, false);
}

void post(int kind, const volatile void* addr, int order, uint64_t a, uint64_t b, int ok) {
    if (!controlled()) return;
    Run* r = g_run;
    r->res.log.push_back(Event{t_self, kind, order, ok, (const void*)addr, a, b, nullptr});
    if (is_write(kind, ok, a, b)) {
        // a write may satisfy any spinner's condition: make them runnable again
        r->write_epoch++;
        r->idle_rounds = 0;
        for (auto* t : r->ths) if (t->st == T_SPIN) t->st = T_RUNNABLE;
    }
    r->ths[t_self]->accessed = true;
}

static void spin_point(int kind) {
    if (!controlled()) { sched_yield(); return; }
    Run* r = g_run;
    r->res.log.push_back(Event{t_self, kind, 0, 1, nullptr, 0, 0, nullptr});
    Th* me = r->ths[t_self];
    // A spin loop iteration = the code between two spin points that contains at least one atomic access.
    // Park only after a *clean* iteration: nobody (this thread included) wrote shared state while it ran, so the
    // next iteration would read the same values and do the same thing; re-running it is pointless until another
    // thread writes.  (Back-off loops call pause several times in a row: spin points without an access in between
    // do not start a new iteration.)
    if (me->accessed) {
        me->accessed = false;
        if (me->iter_epoch == r->write_epoch) me->st = T_SPIN;
        else me->iter_epoch = r->write_epoch;
    }
    reschedule(t_self, false);
    if (me->st == T_RUNNABLE) me->iter_epoch = r->write_epoch;   // (re)start of an iteration
}
void pause_point() { spin_point(K_PAUSE); }
void yield_point() { spin_point(K_YIELD); }

void set_idle_round_limit(size_t n) { g_idle_round_limit = n; }

void note(const char* tag, uint64_t a, uint64_t b) {
    if (!controlled()) return;
    g_run->res.log.push_back(Event{t_self, K_NOTE, 0, 1, nullptr, a, b, tag});
}

// --- schedules -------------------------------------------------------------------------------------
int RandomSchedule::pick(int cur, const std::vector<int>& en, size_t) {
    bool cur_en = false;
    for (int t : en) if (t == cur) cur_en = true;
    if (cur_en && (int)(next() & 255) < stay) return cur;
    return en[next() % en.size()];
}
int ReplaySchedule::pick(int cur, const std::vector<int>& en, size_t step) {
    if (step < tids.size()) {
        for (int t : en) if (t == tids[step]) return t;
        fprintf(stderr, "verif: replay diverged at step %zu (wanted %d)\n", step, tids[step]);
    }
    for (int t : en) if (t == cur) return t;
    return en[0];
}
int DfsSchedule::pick(int cur, const std::vector<int>& en, size_t) {
    // alternatives ordered: current thread first (no preemption), then the others
    if (pos < stack.size()) {
        Choice& c = stack[pos];
        int t = c.alts[c.idx];
        bool t_en = false; for (int x : en) if (x == t) t_en = true;
        if (t_en) {
            pos++;
            bool cur_en = false; for (int x : en) if (x == cur) cur_en = true;
            if (cur_en && t != cur) preempts++;
            return t;
        }
        // the scenario did not repeat the recorded prefix (it is not deterministic between runs): drop the stale suffix
        // and continue as a fresh path instead of handing the baton to a thread that cannot run
        diverged = true;
        stack.resize(pos);
    }
    std::vector<int> alts;
    bool cur_en = false; for (int x : en) if (x == cur) cur_en = true;
    if (cur_en) alts.push_back(cur);
    if (!cur_en || preempts < bound) for (int x : en) if (x != cur) alts.push_back(x);
    stack.push_back(Choice{alts, 0, preempts});
    pos++;
    return alts[0];
}
bool DfsSchedule::next() {
    while (!stack.empty()) {
        Choice& c = stack.back();
        if (c.idx + 1 < c.alts.size()) { c.idx++; pos = 0; preempts = 0; return true; }
        stack.pop_back();
    }
    return false;
}

// --- run ---------------------------------------------------------------------------------------------
Result run(const std::vector<std::function<void()>>& bodies, Schedule& sch, size_t max_steps) {
    Run r;
    r.sch = &sch; r.max_steps = max_steps;
    if (auto* d = dynamic_cast<DfsSchedule*>(&sch)) { d->pos = 0; d->preempts = 0; }
    for (size_t i = 0; i < bodies.size(); ++i) r.ths.push_back(new Th());
    g_run = &r;
    std::vector<std::thread> threads;
    for (size_t i = 0; i < bodies.size(); ++i) {
        threads.emplace_back([&, i] {
            t_self = (int)i;
            wait_go(r.ths[i]);
            r.res.log.push_back(Event{(int)i, K_START, 0, 1, nullptr, 0, 0, nullptr});
            bodies[i]();
            r.res.log.push_back(Event{(int)i, K_END, 0, 1, nullptr, 0, 0, nullptr});
            r.ths[i]->st = T_DONE;
            reschedule((int)i, true);
            t_self = -1;
        });
    }
    // initial pick, made on behalf of nobody
    {
        std::vector<int> en;
        for (size_t i = 0; i < r.ths.size(); ++i) en.push_back((int)i);
        if (!en.empty()) {
            int nxt = sch.pick(-1, en, 0);
            r.res.steps++; r.res.schedule.push_back(nxt); r.cur = nxt;
            give_go(r.ths[nxt]);
        } else r.finished.store(1);
    }
    while (r.finished.load() == 0) syscall(SYS_futex, (int*)&r.finished, FUTEX_WAIT_PRIVATE, 0, nullptr, nullptr, 0);
    if (r.dead.load()) {
        // stuck threads cannot be joined; detach and let the caller report + _exit
        for (auto& t : threads) t.detach();
        g_run = nullptr;   // note: stuck threads never touch g_run again (they are parked in pause())
        Result out = r.res;
        return out;
    }
    for (auto& t : threads) t.join();
    g_run = nullptr;
    for (auto* t : r.ths) delete t;
    return r.res;
}

namespace { bool g_crash_report = false; bool g_tsc_trap_installed = false; }
// --- crash reporter: a fault inside a controlled run is an observation; print the schedule that led to it ---------
namespace {
void crash_handler(int sig) {
    static const char hdr[] = "\nCRASH signal=";
    char buf[64];
    (void)!write(1, hdr, sizeof hdr - 1);
    int n = snprintf(buf, sizeof buf, "%d tid=%d\nsched", sig, t_self);
    (void)!write(1, buf, n);
    Run* r = g_run;
    if (r) for (int t : r->res.schedule) { n = snprintf(buf, sizeof buf, " %d", t); (void)!write(1, buf, n); }
    (void)!write(1, "\nend\n", 5);
    _exit(4);
}
}
void report_crashes() {
    g_crash_report = true;
    struct sigaction sa; memset(&sa, 0, sizeof sa);
    sa.sa_handler = crash_handler;
    // the RDTSC trap owns SIGSEGV when init_determinism ran (it forwards genuine faults to crash_handler): either call order works
    if (!g_tsc_trap_installed) sigaction(SIGSEGV, &sa, nullptr);
    sigaction(SIGBUS, &sa, nullptr); sigaction(SIGABRT, &sa, nullptr); sigaction(SIGFPE, &sa, nullptr);
}

// --- determinism -----------------------------------------------------------------------------------------
namespace {
std::atomic<uint64_t> g_vtsc{1000000};
std::atomic<uint64_t> g_vclock{1000000000ull};
void tsc_trap(int, siginfo_t*, void* uc_) {
    ucontext_t* uc = static_cast<ucontext_t*>(uc_);
    unsigned char* ip = reinterpret_cast<unsigned char*>(uc->uc_mcontext.gregs[REG_RIP]);
    if (ip[0] == 0x0F && ip[1] == 0x31) {                       // rdtsc
        uint64_t v = g_vtsc.fetch_add(400) + 400;
        uc->uc_mcontext.gregs[REG_RAX] = (long long)(v & 0xffffffffu);
        uc->uc_mcontext.gregs[REG_RDX] = (long long)(v >> 32);
        uc->uc_mcontext.gregs[REG_RIP] += 2;
        return;
    }
    if (ip[0] == 0x0F && ip[1] == 0x01 && ip[2] == 0xF9) {      // rdtscp
        uint64_t v = g_vtsc.fetch_add(400) + 400;
        uc->uc_mcontext.gregs[REG_RAX] = (long long)(v & 0xffffffffu);
        uc->uc_mcontext.gregs[REG_RDX] = (long long)(v >> 32);
        uc->uc_mcontext.gregs[REG_RCX] = 0;
        uc->uc_mcontext.gregs[REG_RIP] += 3;
        return;
    }
    if (g_crash_report) crash_handler(SIGSEGV);
    signal(SIGSEGV, SIG_DFL);                                    // a genuine fault: re-raise with default action
}
}
uint64_t virtual_now_ns() { return g_vclock.fetch_add(100000) + 100000; }   // 100 us per reading

void init_determinism(int argc, char** argv) {
    (void)argc;
    int pers = personality(0xffffffff);
    if (pers != -1 && !(pers & ADDR_NO_RANDOMIZE) && !getenv("VERIF_NO_REEXEC")) {
        personality(pers | ADDR_NO_RANDOMIZE);
        setenv("VERIF_NO_REEXEC", "1", 1);
        execv("/proc/self/exe", argv);
    }
    struct sigaction sa; memset(&sa, 0, sizeof sa);
    sa.sa_sigaction = tsc_trap; sa.sa_flags = SA_SIGINFO | SA_NODEFER;
    sigaction(SIGSEGV, &sa, nullptr);
    g_tsc_trap_installed = true;
    prctl(PR_SET_TSC, PR_TSC_SIGSEGV, 0, 0, 0);
}

// --- names ---------------------------------------------------------------------------------------------
void name_addr(const volatile void* addr, const std::string& name) { g_addr_names[(const void*)addr] = name; }
void name_value(uint64_t v, const std::string& name) { g_value_names[v] = name; }
void clear_names() { g_addr_names.clear(); g_value_names.clear(); g_anon.clear(); }
std::string addr_name(const void* addr) {
    if (!addr) return "-";
    auto it = g_addr_names.find(addr);
    if (it != g_addr_names.end()) return it->second;
    auto a = g_anon.find(addr);
    if (a == g_anon.end()) a = g_anon.emplace(addr, (int)g_anon.size()).first;
    return "anon" + std::to_string(a->second);
}
std::string value_name(uint64_t v) {
    auto it = g_value_names.find(v);
    if (it != g_value_names.end()) return it->second;
    return std::to_string(v);
}
const char* kind_name(int k) {
    static const char* n[] = {"load", "store", "xchg", "cas", "fadd", "fsub", "fand", "for", "fxor", "fence", "pause", "yield", "fwait", "fwake", "note", "start", "end"};
    return (k >= 0 && k <= K_END) ? n[k] : "?";
}
const char* order_name(int o) {
    static const char* n[] = {"rlx", "cns", "acq", "rel", "acqrel", "sc"};
    return (o >= 0 && o <= 5) ? n[o] : "?";
}
std::string format_event(const Event& e) {
    char buf[256];
    if (e.kind == K_NOTE) {
        snprintf(buf, sizeof buf, "%d note %s %s %s", e.tid, e.tag ? e.tag : "-", value_name(e.a).c_str(), value_name(e.b).c_str());
        return buf;
    }
    snprintf(buf, sizeof buf, "%d %s %s %s %s %s %d", e.tid, kind_name(e.kind), addr_name(e.addr).c_str(), order_name(e.order),
             value_name(e.a).c_str(), value_name(e.b).c_str(), e.ok);
    return buf;
}

} // namespace verif

// --- threads created by the code under test (e.g. the RML worker threads of libtbb) -----------------------------
namespace {
struct DynStart { verif::Th* th; int tid; void* (*fn)(void*); void* arg; };
void* dyn_trampoline(void* p) {
    using namespace verif;
    DynStart* d = static_cast<DynStart*>(p);
    t_self = d->tid;
    wait_go(d->th);
    if (g_run) g_run->res.log.push_back(Event{d->tid, K_START, 0, 1, nullptr, 0, 0, nullptr});
    void* r = d->fn(d->arg);
    if (g_run) {
        g_run->res.log.push_back(Event{d->tid, K_END, 0, 1, nullptr, 0, 0, nullptr});
        d->th->st = T_DONE;
        int me = d->tid;
        delete d;
        reschedule(me, true);
    }
    t_self = -1;
    return r;
}
}
extern "C" int verif_pthread_create(pthread_t* h, const pthread_attr_t* attr, void* (*fn)(void*), void* arg) {
    using namespace verif;
    if (!controlled()) return pthread_create(h, attr, fn, arg);
    Run* r = g_run;
    reschedule(t_self, false);                       // scheduling point
    Th* th = new Th();
    th->dynamic = true;
    int tid = (int)r->ths.size();
    r->ths.push_back(th);
    DynStart* d = new DynStart{th, tid, fn, arg};
    int rc = pthread_create(h, attr, dyn_trampoline, d);
    if (rc != 0) { th->st = T_DONE; delete d; return rc; }
    th->handle = *h;
    r->res.log.push_back(Event{t_self, K_NOTE, 0, 1, nullptr, (uint64_t)tid, 0, "thread_create"});
    return 0;
}
extern "C" int verif_pthread_join(pthread_t h, void** ret) {
    using namespace verif;
    if (controlled()) {
        Run* r = g_run;
        Th* target = nullptr;
        for (auto* t : r->ths) if (t->dynamic && pthread_equal(t->handle, h)) target = t;
        if (target) {
            // wait (as a parked spinner) until the target has finished under the scheduler
            while (target->st != T_DONE) {
                Th* me = r->ths[t_self];
                me->st = T_SPIN;
                me->join_wait = true;
                reschedule(t_self, false);
            }
        }
    }
    return pthread_join(h, ret);
}

// --- futex emulation: TBB's binary_semaphore calls ::syscall(SYS_futex, addr, op, val, ...) -----------------
extern "C" long verif_syscall(long nr, ...) {
    va_list ap; va_start(ap, nr);
    long a1 = va_arg(ap, long), a2 = va_arg(ap, long), a3 = va_arg(ap, long), a4 = va_arg(ap, long), a5 = va_arg(ap, long), a6 = va_arg(ap, long);
    va_end(ap);
    using namespace verif;
    if (nr != SYS_futex || !controlled()) return syscall(nr, a1, a2, a3, a4, a5, a6);
    int op = (int)a2 & ~FUTEX_PRIVATE_FLAG;
    Run* r = g_run;
    int* addr = (int*)a1;
    if (op == FUTEX_WAIT) {
        reschedule(t_self, false);                          // scheduling point before the atomic compare-and-park
        int cur = __atomic_load_n(addr, __ATOMIC_SEQ_CST);
        if (cur != (int)a3) {
            r->res.log.push_back(Event{t_self, K_FWAIT, 5, 0, addr, (uint64_t)(unsigned)cur, (uint64_t)(unsigned)a3, nullptr});
            errno = EAGAIN; return -1;
        }
        r->res.log.push_back(Event{t_self, K_FWAIT, 5, 1, addr, (uint64_t)(unsigned)cur, (uint64_t)(unsigned)a3, nullptr});
        Th* me = r->ths[t_self];
        me->st = T_FUTEX; me->futex_addr = addr;
        reschedule(t_self, false);                          // parked until a wake makes us runnable and we are picked
        return 0;
    }
    if (op == FUTEX_WAKE) {
        reschedule(t_self, false);
        int n = 0;
        for (size_t i = 0; i < r->ths.size() && n < (int)a3; ++i) {
            Th* t = r->ths[i];
            if (t->st == T_FUTEX && t->futex_addr == addr) { t->st = T_RUNNABLE; t->futex_addr = nullptr; ++n; r->idle_rounds = 0; }
        }
        r->res.log.push_back(Event{t_self, K_FWAKE, 5, 1, addr, (uint64_t)n, (uint64_t)a3, nullptr});
        return n;
    }
    return syscall(nr, a1, a2, a3, a4, a5, a6);
}
