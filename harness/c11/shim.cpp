// C11 E-SHIM harness: concurrent growers on one real concurrent_vector under the controlled scheduler.
// usage: shim <rand|dfs|replay> <arg> [maxruns]   (scenario on stdin: one "prog <op> <arg> <op> <arg> ..." line per thread,
//   ops: push 0 | by <d> | to <n>)
// Per run prints: run <i> / e <tid> <kind> <a> <b> <ok> (accesses to my_size) / call <tid> <k> <kind> <arg> <start> <end> /
//   mon <verdict> / sched ... / end.   Element type counts copy-constructions and carries a tag.
#include <oneapi/tbb/concurrent_vector.h>
#include <cstdio>
#include <map>
#include <cstring>
#include <sstream>
#include <string>
#include <vector>

static long g_copies;     // only touched while holding the baton
static std::map<uintptr_t, size_t> g_live;
static std::string g_obs_err;
// is [p, p+sizeof(E)) inside element storage the vector's allocator handed out and has not taken back?
static bool in_live_storage(const void* p) {
    uintptr_t a = (uintptr_t)p;
    auto it = g_live.upper_bound(a);
    if (it == g_live.begin()) return false;
    --it;
    return a >= it->first && a + 8 <= it->first + it->second;
}
static long g_fault_ctor = 0, g_fault_alloc = 0, g_allocs = 0, g_faults_fired = 0;
struct E {
    unsigned tag, magic;
    E(unsigned t = 0) : tag(t), magic(0xC0FFEEu) {}
    E(const E& o) : tag(o.tag), magic(o.magic) { if (g_fault_ctor && g_copies + 1 == g_fault_ctor) { g_fault_ctor = 0; ++g_faults_fired; throw 42; } ++g_copies; }
};
// allocator whose k-th allocation of element storage throws (segment-table allocations are not counted)
template <class T> struct fault_alloc {
    using value_type = T;
    fault_alloc() = default;
    template <class U> fault_alloc(const fault_alloc<U>&) {}
    T* allocate(size_t n) {
        if (sizeof(T) == sizeof(E)) { ++g_allocs; if (g_fault_alloc && g_allocs == g_fault_alloc) { ++g_faults_fired; throw std::bad_alloc(); } }
        T* p = static_cast<T*>(::operator new(n * sizeof(T)));
        if (sizeof(T) == sizeof(E)) g_live[(uintptr_t)p] = n * sizeof(T);          // ledger of element storage (only touched while holding the baton)
        return p;
    }
    void deallocate(T* p, size_t) { g_live.erase((uintptr_t)p); ::operator delete(p); }
    template <class U> bool operator==(const fault_alloc<U>&) const { return true; }
    template <class U> bool operator!=(const fault_alloc<U>&) const { return false; }
};
using vec_t = tbb::concurrent_vector<E, fault_alloc<E>>;
struct Op { int kind; size_t arg; size_t start, end; bool claimed; const E* addr; int threw; };
static std::vector<std::vector<Op>> g_progs;

static bool run_once(verif::Schedule& sch, int run_idx, bool print) {
    g_copies = 0; g_allocs = 0; g_faults_fired = 0; g_live.clear(); g_obs_err.clear();
    g_fault_ctor = getenv("VERIF_FAULT_CTOR") ? atol(getenv("VERIF_FAULT_CTOR")) : 0;
    g_fault_alloc = getenv("VERIF_FAULT_ALLOC") ? atol(getenv("VERIF_FAULT_ALLOC")) : 0;
    bool faulty = g_fault_ctor || g_fault_alloc;
    auto progs = g_progs;
    size_t T = progs.size();
    auto* vp = new vec_t();
    auto& v = *vp;
    verif::clear_names();
    const void* size_addr = (const void*)&v.my_size;
    verif::name_addr(&v.my_size, "size"); verif::name_addr(&v.my_first_block, "first_block"); verif::name_addr(&v.my_segment_table, "table_ptr");
    for (int i = 0; i < 3; ++i) verif::name_addr(&v.my_embedded_table[i], "emb" + std::to_string(i));
    std::vector<std::function<void()>> bodies;
    for (size_t t = 0; t < T; ++t) bodies.push_back([&, t] {
        unsigned k = 0;
        for (auto& c : progs[t]) {
            unsigned tag = (unsigned)(t * 100000 + k + 1); ++k;
            try {
                if (c.kind == 0) { auto it = v.push_back(E(tag)); c.start = it - v.begin(); c.end = c.start + 1; c.claimed = true; }
                else if (c.kind == 1) { auto it = v.grow_by(c.arg, E(tag)); c.start = it - v.begin(); c.end = c.start + c.arg; c.claimed = c.arg != 0; }
                else { auto it = v.grow_to_at_least(c.arg, E(tag)); size_t i = it - v.begin(); if (i < c.arg) { c.start = i; c.end = c.arg; c.claimed = true; } }
                if (c.claimed) c.addr = &v[c.start];
            } catch (std::bad_alloc&) { c.threw = 1; c.claimed = false; }
              catch (int) { c.threw = 2; c.claimed = false; }
        }
    });
    // VERIF_OBSERVER=<rounds>: one more thread that only observes, while the growers run: every index below size() (and every position of
    // [begin(), end())) names storage the vector has allocated -- size() may count elements still under construction, never a missing segment
    int obs_rounds = getenv("VERIF_OBSERVER") ? atoi(getenv("VERIF_OBSERVER")) : 0;
    if (obs_rounds > 0) bodies.push_back([&, obs_rounds] {
        for (int k = 0; k < obs_rounds && g_obs_err.empty(); ++k) {
            size_t n = v.size();
            for (size_t i = 0; i < n && g_obs_err.empty(); ++i)
                if (!in_live_storage(&v[i])) g_obs_err = "while growth is in flight size() = " + std::to_string(n) + " but the address of element " + std::to_string(i) + " is not inside storage the vector allocated (segment missing)";
            size_t steps = 0;
            for (auto it = v.begin(); it != v.end() && g_obs_err.empty() && steps < 100000; ++it, ++steps)
                if (!in_live_storage(&*it)) g_obs_err = "while growth is in flight iteration over [begin(), end()) reaches an address outside the vector's storage (index " + std::to_string(it - v.begin()) + ")";
        }
    });
    verif::Result r = verif::run(bodies, sch);
    std::string err;
    if (r.deadlock) err = "DEADLOCK";
    else if (!g_obs_err.empty()) err = g_obs_err;
    if (!r.deadlock && err.empty()) {
        // every index below size() names allocated storage, also after a fault (operator[], iterators and back() do no check of their own)
        size_t n = v.size();
        for (size_t i = 0; i < n; ++i) if (!in_live_storage(&v[i])) { err = "size() = " + std::to_string(n) + " but the address of element " + std::to_string(i) + " is not inside storage the vector allocated (segment missing)"; break; }
    }
    if (!err.empty()) {}
    else if (faulty && g_faults_fired) {
        // failure clauses of the property: the vector stays destructible and every later access either works or throws,
        // without touching unallocated memory (a wild access crashes the process: see verif::report_crashes)
        size_t okc = 0, thr = 0;
        for (size_t i = 0; i < v.size(); ++i) { try { volatile unsigned x = v.at(i).magic; (void)x; ++okc; } catch (...) { ++thr; } }
        // elements of calls that completed normally must still hold their values
        for (size_t t = 0; t < T; ++t) { unsigned k = 0; for (auto& c : progs[t]) {
            unsigned tag = (unsigned)(t * 100000 + k + 1); ++k;
            if (!c.claimed) continue;
            for (size_t i = c.start; i < c.end && i < v.size(); ++i) { try { if (v.at(i).tag != tag) err = "element of a completed call lost its value after a fault"; } catch (...) { err = "element of a completed call became inaccessible after a fault"; } }
        } }
    }
    else {
        // monitors: ranges tile [0,size), constructed once with the requested value, addresses stable
        std::vector<std::pair<size_t, size_t>> rs;
        for (size_t t = 0; t < T; ++t) { unsigned k = 0; for (auto& c : progs[t]) {
            unsigned tag = (unsigned)(t * 100000 + k + 1); ++k;
            if (!c.claimed) continue;
            rs.push_back({c.start, c.end});
            for (size_t i = c.start; i < c.end && i < v.size(); ++i) if (v[i].tag != tag || v[i].magic != 0xC0FFEEu) err = "element " + std::to_string(i) + " does not hold the value of the call that claimed it";
            if (c.addr != &v[c.start]) err = "element address changed";
        } }
        std::sort(rs.begin(), rs.end());
        size_t pos = 0;
        for (auto& p : rs) { if (p.first != pos || p.second <= p.first) err = "ranges do not tile"; pos = p.second; }
        if (pos != v.size()) err = "ranges do not cover [0,size)";
        if ((size_t)g_copies != v.size()) err = "copy-construction count " + std::to_string(g_copies) + " != size " + std::to_string(v.size());
    }
    bool ok = err.empty();
    if (print || !ok) {
        printf("run %d\n", run_idx);
        for (auto& e : r.log) if (e.addr == size_addr && e.kind <= verif::K_FXOR && (size_t)e.tid < T)
            printf("e %d %s %llu %llu %d\n", e.tid, verif::kind_name(e.kind), (unsigned long long)e.a, (unsigned long long)e.b, e.ok);
        for (size_t t = 0; t < T; ++t) { unsigned k = 0; for (auto& c : progs[t]) {
            const char* kn = c.kind == 0 ? "push" : c.kind == 1 ? "by" : "to";
            if (c.claimed) printf("call %zu %u %s %zu %zu %zu\n", t, k, kn, c.arg, c.start, c.end); else printf("call %zu %u %s %zu - -%s\n", t, k, kn, c.arg, c.threw == 1 ? " bad_alloc" : c.threw == 2 ? " ctor_exc" : "");
            ++k; } }
        if (r.deadlock && getenv("VERIF_TRACE_TAIL")) { size_t n = r.log.size(); for (size_t i = n > 400 ? n - 400 : 0; i < n; ++i) printf("t %s\n", verif::format_event(r.log[i]).c_str()); }
        printf("mon %s\n", ok ? "ok" : ("VIOLATION " + err).c_str());
        if (faulty) printf("faults_fired %ld\n", g_faults_fired);
        printf("sched"); for (int s : r.schedule) printf(" %d", s); printf("\nend\n");
        fflush(stdout);
    }
    if (r.deadlock) { fflush(stdout); _exit(3); }
    delete vp;
    return ok;
}

int main(int argc, char** argv) {
    if (argc < 3) return 2;
    verif::report_crashes();
    verif::set_idle_round_limit(40);     // the spin loops of this header are memoryless: 40 idle rounds are plenty
    char line[1024];
    while (fgets(line, sizeof line, stdin)) {
        std::istringstream is(line); std::string w; is >> w;
        if (w != "prog") continue;
        std::vector<Op> ops; std::string k; unsigned long long a;
        while (is >> k >> a) ops.push_back({k == "push" ? 0 : k == "by" ? 1 : 2, (size_t)a, 0, 0, false, nullptr});
        g_progs.push_back(ops);
    }
    std::string mode = argv[1];
    long maxruns = argc > 3 ? atol(argv[3]) : 1;
    long runs = 0, bad = 0;
    if (mode == "rand") {
        unsigned long long seed = strtoull(argv[2], 0, 10);
        for (long i = 0; i < maxruns; ++i) { verif::RandomSchedule s(seed * 7919 + i, 64 + (int)(i % 3) * 64); if (!run_once(s, (int)i, true)) bad++; runs++; }
    } else if (mode == "dfs") {
        verif::DfsSchedule d(atoi(argv[2]));
        do { if (!run_once(d, (int)runs, false)) { bad++; break; } runs++; } while (runs < maxruns && d.next());
    } else if (mode == "replay") {
        verif::ReplaySchedule s; std::stringstream ss(argv[2]); std::string tok;
        while (std::getline(ss, tok, ',')) if (!tok.empty()) s.tids.push_back(atoi(tok.c_str()));
        if (!run_once(s, 0, true)) bad++; runs++;
    }
    printf("summary runs=%ld bad=%ld\n", runs, bad);
    return bad ? 1 : 0;
}
