// C11: grow_to_at_least on the real concurrent_vector<char> with lazily mapped memory.
//   gtal <old> <new> [noreserve]
// prints: grew=<0|1|mixed> size=<n> old_intact=<0|1>
#include <oneapi/tbb/concurrent_vector.h>
#include <cstdio>
#include <cstdlib>
#include <cstring>
#include <sys/mman.h>
#include <unistd.h>
template <class T> struct lazy_alloc {
    using value_type = T;
    lazy_alloc() = default;
    template <class U> lazy_alloc(const lazy_alloc<U>&) {}
    T* allocate(size_t n) {
        void* p = mmap(nullptr, n * sizeof(T) ? n * sizeof(T) : 1, PROT_READ|PROT_WRITE, MAP_PRIVATE|MAP_ANONYMOUS|MAP_NORESERVE, -1, 0);
        if (p == MAP_FAILED) throw std::bad_alloc();
        return (T*)p;
    }
    void deallocate(T* p, size_t n) { munmap(p, n * sizeof(T) ? n * sizeof(T) : 1); }
    template <class U> bool operator==(const lazy_alloc<U>&) const { return true; }
    template <class U> bool operator!=(const lazy_alloc<U>&) const { return false; }
};
int main(int argc, char** argv) {
    if (argc < 3) return 2;
    size_t old_n = strtoull(argv[1], 0, 10), new_n = strtoull(argv[2], 0, 10);
    bool reserve = !(argc > 3 && !strcmp(argv[3], "noreserve"));
    tbb::concurrent_vector<char, lazy_alloc<char>> v;
    if (reserve) v.reserve((old_n > new_n ? old_n : new_n) + 16);
    if (old_n) v.grow_by(old_n, 'o');
    v.grow_to_at_least(new_n, 'x');
    int yes = 0, no = 0;
    if (old_n < new_n) {
        size_t span = new_n - old_n;
        unsigned long long s = 88172645463325252ull;
        for (int k = 0; k < 67; ++k) {
            size_t i;
            if (k == 0) i = old_n; else if (k == 1) i = new_n - 1; else if (k == 2) i = old_n + span / 2;
            else { s ^= s << 13; s ^= s >> 7; s ^= s << 17; i = old_n + s % span; }
            if (v[i] == 'x') ++yes; else ++no;
        }
    }
    bool intact = true;
    if (old_n) intact = v[0] == 'o' && v[old_n - 1] == 'o' && v[old_n / 2] == 'o';
    printf("grew=%s size=%zu old_intact=%d\n", (no == 0 && yes > 0) ? "1" : (yes == 0 ? "0" : "mixed"), (size_t)v.size(), (int)intact);
    fflush(stdout);
    _exit(0);   // skip destruction of multi-GB vectors
}
