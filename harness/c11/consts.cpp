// E-GEN constant dumper for C11 (compiled against /repo's current headers on every run)
#include <oneapi/tbb/concurrent_vector.h>
#include <cstdio>
int main() {
    using V = tbb::concurrent_vector<int>;
    printf("{\"pointersPerEmbeddedTable\": %zu, \"pointersPerLongTable\": %zu, \"embeddedTableSize\": %zu, \"defaultFirstBlockSize\": %zu, \"sizeTypeBits\": %zu}\n",
        (size_t)V::pointers_per_embedded_table, (size_t)V::pointers_per_long_table, (size_t)V::embedded_table_size,
        (size_t)V::default_first_block_size, sizeof(V::size_type) * 8);
}
