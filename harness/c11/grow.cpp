// C11 E-REAL: concurrent growers on one real concurrent_vector.
// stdin: "T <n>" then lines "<tid> push|by|to <arg>" ; "run" executes.
// stdout: "call <tid> <k> <kind> <arg> <start> <end>" per call (start=end=- if nothing claimed), then
//         "final size=<n> copies=<c> tags_ok=<b> addr_stable=<b>"
#include <oneapi/tbb/concurrent_vector.h>
#include <atomic>
#include <cstdio>
#include <cstring>
#include <thread>
#include <vector>
#include <string>

static std::atomic<long> g_copies{0};
struct E {
    unsigned tag, magic;
    E(unsigned t = 0) : tag(t), magic(0xC0FFEEu) {}
    E(const E& o) : tag(o.tag), magic(o.magic) { g_copies.fetch_add(1, std::memory_order_relaxed); }
};
struct Call { int kind; size_t arg; size_t start, end; bool claimed; const E* addr; };

int main() {
    int T = 0; char line[128];
    std::vector<std::vector<Call>> ops;
    while (fgets(line, sizeof line, stdin)) {
        char w[16]; unsigned long long a = 0; int tid;
        if (sscanf(line, "T %d", &T) == 1) { ops.assign(T, {}); continue; }
        if (!strncmp(line, "run", 3)) break;
        if (sscanf(line, "%d %15s %llu", &tid, w, &a) >= 2 && tid < T) {
            int kind = !strcmp(w, "push") ? 0 : !strcmp(w, "by") ? 1 : 2;
            ops[tid].push_back({kind, (size_t)a, 0, 0, false, nullptr});
        }
    }
    tbb::concurrent_vector<E> v;
    std::atomic<int> ready{0};
    std::vector<std::thread> th;
    for (int t = 0; t < T; ++t) th.emplace_back([&, t] {
        ready.fetch_add(1);
        while (ready.load() < T) {}
        unsigned k = 0;
        for (auto& c : ops[t]) {
            unsigned tag = (unsigned)(t * 100000 + k + 1); ++k;
            if (c.kind == 0) { auto it = v.push_back(E(tag)); c.start = it - v.begin(); c.end = c.start + 1; c.claimed = true; }
            else if (c.kind == 1) { auto it = v.grow_by(c.arg, E(tag)); c.start = it - v.begin(); c.end = c.start + c.arg; c.claimed = c.arg != 0; }
            else { auto it = v.grow_to_at_least(c.arg, E(tag)); size_t i = it - v.begin(); if (i < c.arg) { c.start = i; c.end = c.arg; c.claimed = true; } }
            if (c.claimed) c.addr = &v[c.start];
        }
    });
    for (auto& x : th) x.join();
    bool tags_ok = true, stable = true;
    for (int t = 0; t < T; ++t) { unsigned k = 0; for (auto& c : ops[t]) {
        unsigned tag = (unsigned)(t * 100000 + k + 1);
        const char* kn = c.kind == 0 ? "push" : c.kind == 1 ? "by" : "to";
        if (c.claimed) {
            printf("call %d %u %s %zu %zu %zu\n", t, k, kn, c.arg, c.start, c.end);
            for (size_t i = c.start; i < c.end; ++i) if (v[i].tag != tag || v[i].magic != 0xC0FFEEu) tags_ok = false;
            if (c.addr != &v[c.start]) stable = false;
        } else printf("call %d %u %s %zu - -\n", t, k, kn, c.arg);
        ++k; } }
    // contiguity inside a segment: &v[i+1] == &v[i]+1 unless i+1 starts a new allocation — checked by the address model in pure.cpp
    printf("final size=%zu copies=%ld tags_ok=%d addr_stable=%d\n", (size_t)v.size(), g_copies.load(), (int)tags_ok, (int)stable);
    return 0;
}
