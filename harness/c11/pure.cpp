// C11 E-PURE / E-REAL harness: calls the real segment_table / concurrent_vector code of /repo.
// Line protocol on stdin (same lines go to `tbbdrv c11`):
//   idx <i> | base <k> | size <k> | addr <fb> <i> | gtal <old> <new>
// Built with -fno-access-control so that the protected static helpers are reachable.
#include <oneapi/tbb/concurrent_vector.h>
#include <cstdio>
#include <cstdlib>
#include <cstring>
#include <cinttypes>
#include <string>
#include <vector>
#include <map>
#include <sys/mman.h>

using vec_t = tbb::concurrent_vector<char>;

// allocator backed by lazily mapped memory, remembers every allocation (start,size)
struct alloc_rec { char* p; size_t n; };
static std::vector<alloc_rec> g_allocs;
template <class T> struct lazy_alloc {
    using value_type = T;
    lazy_alloc() = default;
    template <class U> lazy_alloc(const lazy_alloc<U>&) {}
    T* allocate(size_t n) {
        size_t bytes = n * sizeof(T);
        void* p = mmap(nullptr, bytes ? bytes : 1, PROT_READ|PROT_WRITE, MAP_PRIVATE|MAP_ANONYMOUS|MAP_NORESERVE, -1, 0);
        if (p == MAP_FAILED) throw std::bad_alloc();
        if (sizeof(T) == 1) g_allocs.push_back({(char*)p, bytes});
        return (T*)p;
    }
    void deallocate(T* p, size_t n) { munmap(p, n * sizeof(T) ? n * sizeof(T) : 1); }
    template <class U> bool operator==(const lazy_alloc<U>&) const { return true; }
    template <class U> bool operator!=(const lazy_alloc<U>&) const { return false; }
};
using lvec_t = tbb::concurrent_vector<char, lazy_alloc<char>>;

int main() {
    char line[256];
    std::map<unsigned long long, lvec_t*> by_fb;   // one vector per first-block choice
    while (fgets(line, sizeof line, stdin)) {
        char cmd[32]; unsigned long long a = 0, b = 0;
        int n = sscanf(line, "%31s %llu %llu", cmd, &a, &b);
        if (n < 2) { puts("bad-op"); continue; }
        if (!strcmp(cmd, "idx")) {
            printf("%zu\n", (size_t)vec_t::segment_index_of((size_t)a));
        } else if (!strcmp(cmd, "base")) {
            if (a >= 64) puts("bad-op"); else printf("%zu\n", (size_t)vec_t::segment_base((size_t)a));
        } else if (!strcmp(cmd, "size")) {
            if (a >= 64) puts("bad-op"); else printf("%zu\n", (size_t)vec_t::segment_size((size_t)a));
        } else if (!strcmp(cmd, "addr") && n == 3) {
            // real vector whose first block is `a` segments; address of element b as (allocation id, offset),
            // allocation id = 0 for the fused first block, else the segment index whose allocation holds it.
            unsigned long long fb = a, i = b;
            if (fb < 1 || fb > 20 || i >= (1ull << 24)) { puts("bad-op"); continue; }
            lvec_t*& v = by_fb[fb];
            if (!v) {
                g_allocs.clear();
                v = new lvec_t();
                // first growth decides my_first_block = segment_index_of(end-1)+1
                size_t first = fb == 1 ? 2 : (size_t(1) << (fb - 1)) + 1;
                v->grow_by(first);
                v->grow_to_at_least(size_t(1) << 24);
            }
            char* p = &(*v)[i];
            // find allocation containing p, then name it by the lowest element index stored there
            size_t k = vec_t::segment_index_of(i);
            char* alloc_start = nullptr; size_t alloc_n = 0;
            // allocations of *this* vector are a suffix of g_allocs only for the most recent; search all
            for (auto& r : g_allocs) if (p >= r.p && p < r.p + r.n) { alloc_start = r.p; alloc_n = r.n; }
            if (!alloc_start) { puts("no-alloc"); continue; }
            size_t id = (&(*v)[0] >= alloc_start && &(*v)[0] < alloc_start + alloc_n) ? 0 : k;
            printf("%zu %zu\n", id, (size_t)(p - alloc_start));
        } else {
            puts("bad-op");
        }
        fflush(stdout);
    }
    return 0;
}
