// C11 E-SHIM harness for the segment-table protocol: concurrent growers on one real concurrent_vector under the
// controlled scheduler; EVERY access to the table words (my_size, my_first_block, my_segment_table, the embedded slots,
// the long-table slots, my_segment_table_allocation_failed) is printed in canonical form together with the allocator
// calls and the element constructions (as notes, in program order), so that the Lean model `SegVec` can replay the run
// event by event.  Independent implementation-side monitors: address stability, constructed-exactly-once, constructed
// only at an address the current table maps to an index, exactly-one-published-allocation-per-segment / no leak,
// tiling, destructibility.
//
// usage: segshim <rand|dfs|dfsp|replay> <arg> [maxruns]
//   scenario on stdin: one "prog <op> <arg> <op> <arg> ..." line per thread, ops: push 0 | by <d> | to <n>
//   env VERIF_FAULT_ALLOC=k / VERIF_FAULT_TABLE=k / VERIF_FAULT_CTOR=k : the k-th element-storage allocation / long-table
//   allocation / element copy-construction throws.
// Per run prints:
//   run <i>
//   e <tid> <kind> <var> <order> <a> <b> <ok>         atomic access to a table word
//   n <tid> <tag> <a> <b>                             alloc/allocfail/free/talloc/tallocfail/tfree/ctor/ctorfail/ret/exc
//   final size=.. fb=.. tptr=.. slots=.. allocs=..
//   mon ok | mon VIOLATION <text>
//   sched ... / end
#include <oneapi/tbb/concurrent_vector.h>
#include <cstdio>
#include <cstring>
#include <sstream>
#include <string>
#include <vector>
#include <map>

struct E;
struct Rec { char* base; size_t n; bool live; int frees; };
static std::vector<Rec> g_el;        // element-storage allocations, id = index
static std::vector<Rec> g_tb;        // long-table allocations, id = index + 1
static std::vector<void*> g_grave;   // memory is really released only after the run (addresses stay unique)
static long g_alloc_calls, g_table_calls, g_ctor_calls, g_faults_fired;
static long g_fault_alloc, g_fault_table, g_fault_ctor;
static long g_ctor_by[64];           // successful constructions per controlled thread
static std::string g_err;            // first monitor violation
static std::string g_known;          // first observation that matches a listed known finding (reported separately)
static void fail(const std::string& s) { if (g_err.empty()) g_err = s; }

struct E {
    unsigned tag, magic;
    E(unsigned t = 0) : tag(t), magic(0xC0FFEEu) {}
    E(const E& o);
};
static const size_t ES = sizeof(E);

template <class T> struct is_elem { static const bool value = false; };
template <> struct is_elem<E> { static const bool value = true; };

template <class T> struct inst_alloc {
    using value_type = T;
    inst_alloc() = default;
    template <class U> inst_alloc(const inst_alloc<U>&) {}
    T* allocate(size_t n) {
        if (is_elem<T>::value) {
            ++g_alloc_calls;
            if (g_fault_alloc && g_alloc_calls == g_fault_alloc) { ++g_faults_fired; verif::note("allocfail", (uint64_t)g_alloc_calls, n); throw std::bad_alloc(); }
            char* p = static_cast<char*>(::operator new(n * sizeof(T)));
            std::memset(p, 0xAB, n * sizeof(T));
            g_el.push_back(Rec{p, n, true, 0});
            verif::note("alloc", g_el.size() - 1, n);
            return reinterpret_cast<T*>(p);
        } else {
            ++g_table_calls;
            if (g_fault_table && g_table_calls == g_fault_table) { ++g_faults_fired; verif::note("tallocfail", (uint64_t)g_table_calls, n); throw std::bad_alloc(); }
            char* p = static_cast<char*>(::operator new(n * sizeof(T)));
            g_tb.push_back(Rec{p, n, true, 0});
            verif::note("talloc", g_tb.size(), n);
            return reinterpret_cast<T*>(p);
        }
    }
    void deallocate(T* p, size_t n) {
        std::vector<Rec>& L = is_elem<T>::value ? g_el : g_tb;
        bool found = false;
        for (size_t i = 0; i < L.size(); ++i) if (L[i].base == reinterpret_cast<char*>(p)) {
            found = true;
            if (!L[i].live) fail(std::string(is_elem<T>::value ? "element storage A" : "table L") + std::to_string(i + (is_elem<T>::value ? 0 : 1)) + " deallocated twice");
            if (L[i].n != n) fail("deallocate with a size different from the allocation's (" + std::to_string(n) + " vs " + std::to_string(L[i].n) + ")");
            L[i].live = false; L[i].frees++;
            verif::note(is_elem<T>::value ? "free" : "tfree", i + (is_elem<T>::value ? 0 : 1), n);
        }
        if (!found) fail("deallocate of a pointer that was never allocated");
        g_grave.push_back(p);
    }
    template <class U> bool operator==(const inst_alloc<U>&) const { return true; }
    template <class U> bool operator!=(const inst_alloc<U>&) const { return false; }
};
using vec_t = tbb::concurrent_vector<E, inst_alloc<E>>;
static vec_t* g_v;

// --- white-box raw reads (no scheduling points: the monitors must not perturb the trace) ------------------------
static inline size_t seg_of(size_t i) { return vec_t::segment_index_of(i); }
static inline size_t base_of(size_t k) { return vec_t::segment_base(k); }
static inline size_t size_of_seg(size_t k) { return vec_t::segment_size(k); }
static vec_t::atomic_segment* raw_table() { return g_v->my_segment_table.a.load(std::memory_order_relaxed); }
static bool raw_is_embedded() { return (void*)raw_table() == (void*)g_v->my_embedded_table; }
static E* raw_slot(size_t k) { return raw_table()[k].a.load(std::memory_order_relaxed); }
static size_t raw_nslots() { return raw_is_embedded() ? (size_t)vec_t::pointers_per_embedded_table : (size_t)vec_t::pointers_per_long_table; }
static E* raw_addr(size_t i) {
    size_t k = seg_of(i);
    if (k >= raw_nslots()) return nullptr;
    E* s = raw_slot(k);
    if ((uintptr_t)s <= 1) return nullptr;
    return s + i;
}
static int el_of(const void* p, size_t* off) {
    for (size_t i = 0; i < g_el.size(); ++i) {
        const char* c = static_cast<const char*>(p);
        if (c >= g_el[i].base && c < g_el[i].base + g_el[i].n * ES) { if (off) *off = (size_t)(c - g_el[i].base) / ES; return (int)i; }
    }
    return -1;
}

// --- address-stability / constructed-once monitor ---------------------------------------------------------------
static std::map<size_t, const E*> g_addr;      // index -> address at construction
static std::map<size_t, int> g_ccount;         // index -> number of constructions
static void check_stability(const char* when) {
    for (auto& kv : g_addr) {
        E* now = raw_addr(kv.first);
        if (now != kv.second) { fail(std::string("address of element ") + std::to_string(kv.first) + " changed (" + when + ")"); return; }
    }
}

E::E(const E& o) : tag(o.tag), magic(o.magic) {
    if (!verif::controlled()) return;
    size_t off = 0;
    int a = el_of(this, &off);
    if (a < 0) return;                       // a temporary outside the vector's storage
    ++g_ctor_calls;
    if (g_fault_ctor && g_ctor_calls == g_fault_ctor) { ++g_faults_fired; verif::note("ctorfail", a, off); throw 42; }
    verif::note("ctor", a, off);
    if (verif::self() >= 0 && verif::self() < 64) g_ctor_by[verif::self()]++;
    if (!g_el[a].live) fail("element constructed in freed storage A" + std::to_string(a));
    // which index does the CURRENT table map this address to?
    size_t ns = raw_nslots(); long idx = -1; int hits = 0;
    for (size_t k = 0; k < ns; ++k) {
        E* s = raw_slot(k);
        if ((uintptr_t)s <= 1) continue;
        ptrdiff_t i = this - s;
        if (i >= 0 && (size_t)i >= base_of(k) && (size_t)i < base_of(k) + size_of_seg(k) && seg_of((size_t)i) == k) { idx = (long)i; ++hits; }
    }
    if (hits != 1) { fail("element constructed at an address that the current segment table maps to " + std::to_string(hits) + " indices (storage A" + std::to_string(a) + " offset " + std::to_string(off) + ")"); return; }
    if (g_ccount[(size_t)idx]++ > 0) fail("element " + std::to_string(idx) + " constructed twice");
    g_addr[(size_t)idx] = this;
}

struct Op { int kind; size_t arg; size_t start, end; bool claimed; int threw; };
static std::vector<std::vector<Op>> g_progs;

static std::string slot_name(uint64_t v, size_t k) {
    // value of segment slot k: null, the failure tag, the start of an allocation (first block), or the start of an
    // allocation shifted down by segment_base(k) elements (regular segment)
    if (v == 0) return "0";
    if (v == 1) return "F";
    // (two allocations can be adjacent in memory, so a value may match both forms: slots below the first block hold
    //  unshifted pointers, the others shifted ones -- prefer the form the slot is supposed to hold)
    size_t fb = g_v ? g_v->my_first_block.a.load(std::memory_order_relaxed) : 0;
    for (int pass = 0; pass < 2; ++pass) {
        bool shifted = (k >= fb) == (pass == 0);
        for (size_t i = 0; i < g_el.size(); ++i) {
            if (!shifted && (uint64_t)(uintptr_t)g_el[i].base == v) return "A" + std::to_string(i);
            if (shifted && k < 64 && base_of(k) != 0 && (uint64_t)(uintptr_t)g_el[i].base == v + (uint64_t)base_of(k) * ES) return "A" + std::to_string(i) + "-" + std::to_string(base_of(k));
        }
    }
    char b[32]; snprintf(b, sizeof b, "?%llx", (unsigned long long)v); return b;
}
static std::string tab_name(uint64_t v) {
    if (v == 0) return "0";
    if ((void*)(uintptr_t)v == (void*)g_v->my_embedded_table) return "E";
    for (size_t i = 0; i < g_tb.size(); ++i) if ((uint64_t)(uintptr_t)g_tb[i].base == v) return "L" + std::to_string(i + 1);
    return "?";
}

static bool run_once(verif::Schedule& sch, int run_idx, bool print) {
    g_el.clear(); g_tb.clear(); g_err.clear(); g_known.clear(); std::memset(g_ctor_by, 0, sizeof g_ctor_by); g_addr.clear(); g_ccount.clear();
    g_alloc_calls = g_table_calls = g_ctor_calls = g_faults_fired = 0;
    g_fault_ctor = getenv("VERIF_FAULT_CTOR") ? atol(getenv("VERIF_FAULT_CTOR")) : 0;
    g_fault_alloc = getenv("VERIF_FAULT_ALLOC") ? atol(getenv("VERIF_FAULT_ALLOC")) : 0;
    g_fault_table = getenv("VERIF_FAULT_TABLE") ? atol(getenv("VERIF_FAULT_TABLE")) : 0;
    bool faulty = g_fault_ctor || g_fault_alloc || g_fault_table;
    auto progs = g_progs;
    size_t T = progs.size();
    auto* vp = new vec_t();
    g_v = vp;
    auto& v = *vp;
    std::vector<std::function<void()>> bodies;
    for (size_t t = 0; t < T; ++t) bodies.push_back([&, t] {
        unsigned k = 0;
        for (auto& c : progs[t]) {
            unsigned tag = (unsigned)(t * 100000 + k + 1); ++k;
            try {
                if (c.kind == 0) { auto it = v.push_back(E(tag)); c.start = it - v.begin(); c.end = c.start + 1; c.claimed = true; }
                else if (c.kind == 1) { auto it = v.grow_by(c.arg, E(tag)); c.start = it - v.begin(); c.end = c.start + c.arg; c.claimed = c.arg != 0; }
                else { long before = g_ctor_by[t]; auto it = v.grow_to_at_least(c.arg, E(tag)); size_t i = it - v.begin();
                       // growing path (the call constructed something) vs waiting path (returns end(), whatever size() says at that moment)
                       if (g_ctor_by[t] != before) { c.start = i; c.end = c.arg; c.claimed = true; }
                       // grow_to_at_least(n) has returned: every segment holding an index < n must be present (allocated, or failure-tagged)
                       for (size_t j = 0; j < c.arg; j = base_of(seg_of(j)) + size_of_seg(seg_of(j))) if (seg_of(j) >= raw_nslots() || raw_slot(seg_of(j)) == nullptr) {
                           std::string m = "grow_to_at_least(" + std::to_string(c.arg) + ") returned while segment " + std::to_string(seg_of(j)) + " is not allocated";
                           if (c.claimed) { if (g_known.empty()) g_known = "gtal-grow-path-no-wait " + m; }    // KNOWN_FINDINGS: the growing path returns without the wait
                           else fail(m + " (waiting path)");
                       } }
                if (c.claimed) verif::note("ret", c.start, c.end); else verif::note("ret", 0, 0);
            } catch (std::bad_alloc&) { c.threw = 1; c.claimed = false; verif::note("exc", 1, 0); }
              catch (int) { c.threw = 2; c.claimed = false; verif::note("exc", 2, 0); }
            check_stability("after an operation");
        }
    });
    verif::Result r = verif::run(bodies, sch);
    std::string err;
    if (r.deadlock) err = "DEADLOCK";
    check_stability("at the end");
    if (err.empty() && !g_err.empty()) err = g_err;
    size_t fb = v.my_first_block.a.load(std::memory_order_relaxed);
    size_t vsize = v.my_size.a.load(std::memory_order_relaxed);
    if (err.empty() && !faulty) {
        // ranges tile [0,size), every element constructed exactly once and holds the value of the call that claimed it
        std::vector<std::pair<size_t, size_t>> rs;
        for (size_t t = 0; t < T; ++t) { unsigned k = 0; for (auto& c : progs[t]) {
            unsigned tag = (unsigned)(t * 100000 + k + 1); ++k;
            if (!c.claimed) continue;
            rs.push_back({c.start, c.end});
            for (size_t i = c.start; i < c.end; ++i) { E* p = raw_addr(i); if (!p || p->tag != tag || p->magic != 0xC0FFEEu) err = "element " + std::to_string(i) + " does not hold the value of the call that claimed it"; }
        } }
        std::sort(rs.begin(), rs.end());
        size_t pos = 0;
        for (auto& p : rs) { if (p.first != pos || p.second <= p.first) err = "ranges do not tile"; pos = p.second; }
        if (pos != vsize) err = "ranges do not cover [0,size)";
        for (size_t i = 0; i < vsize; ++i) if (g_ccount[i] != 1) { err = "element " + std::to_string(i) + " constructed " + std::to_string(g_ccount[i]) + " times"; break; }
        if (g_ccount.size() > vsize) err = "an element beyond size() was constructed";
        // exactly one published allocation per segment, none leaked, none discarded except first-block election losers
        std::vector<int> refs(g_el.size(), 0);
        size_t ns = raw_nslots();
        for (size_t k = 0; k < ns && err.empty(); ++k) {
            E* s = raw_slot(k);
            if ((uintptr_t)s == 1) { err = "failure tag in slot " + std::to_string(k) + " although nothing failed"; break; }
            bool needed = base_of(k) < vsize;
            if (!s) { if (needed) err = "segment " + std::to_string(k) + " holds elements below size() but is not allocated"; continue; }
            E* first = k < fb ? s : s + base_of(k);
            size_t off = 0; int a = el_of(first, &off);
            if (a < 0 || off != 0 || !g_el[a].live) { err = "slot " + std::to_string(k) + " does not point to the start of a live allocation"; break; }
            if (g_el[a].n != (k < fb ? size_of_seg(fb) : size_of_seg(k))) err = "slot " + std::to_string(k) + " holds an allocation of the wrong size";
            refs[a]++;
        }
        for (size_t a = 0; a < g_el.size() && err.empty(); ++a) {
            if (g_el[a].live && refs[a] == 0) err = "allocation A" + std::to_string(a) + " is neither published in the segment table nor deallocated (leak)";
            if (g_el[a].live && refs[a] > 1 && !(refs[a] <= (int)fb)) err = "allocation A" + std::to_string(a) + " is published in several segment slots";
            if (!g_el[a].live && g_el[a].n != size_of_seg(fb)) err = "allocation A" + std::to_string(a) + " of a regular segment was discarded (double allocation)";
        }
        // per segment: number of allocator calls for it (by size; the first block and segment fb share the size 2^fb)
        std::map<size_t, int> by_n; int discarded_fb = 0;
        for (auto& rcd : g_el) { by_n[rcd.n]++; if (!rcd.live) discarded_fb++; }
        for (auto& kv : by_n) if (err.empty()) {
            int allowed = kv.first == size_of_seg(fb) ? 2 + discarded_fb : 1;
            if (kv.second > allowed) err = "more than one allocation of " + std::to_string(kv.first) + " elements (one segment allocated twice)";
        }
    }
    if (err.empty() && faulty && g_faults_fired) {
        // failure clauses: elements of calls that completed normally still hold their values and addresses; later accesses work or throw
        for (size_t t = 0; t < T; ++t) { unsigned k = 0; for (auto& c : progs[t]) {
            unsigned tag = (unsigned)(t * 100000 + k + 1); ++k;
            if (!c.claimed) continue;
            for (size_t i = c.start; i < c.end && i < vsize; ++i) { try { if (v.at(i).tag != tag) err = "element of a completed call lost its value after a fault"; } catch (...) { err = "element " + std::to_string(i) + " of a completed call became inaccessible after a fault"; } }
        } }
        for (size_t i = 0; i < vsize && i < v.size(); ++i) { try { volatile unsigned x = v.at(i).magic; (void)x; } catch (...) {} }
    }
    // canonical trace
    std::string finals;
    {
        std::ostringstream os;
        os << "final size=" << vsize << " fb=" << fb << " tptr=" << tab_name((uint64_t)(uintptr_t)raw_table()) << " slots=";
        size_t ns = raw_nslots();
        for (size_t k = 0; k < ns; ++k) { if (k) os << ","; os << slot_name((uint64_t)(uintptr_t)raw_slot(k), k); }
        os << " allocs=";
        for (size_t a = 0; a < g_el.size(); ++a) { if (a) os << ","; os << g_el[a].n << (g_el[a].live ? "L" : "D"); }
        if (g_el.empty()) os << "-";
        finals = os.str();
    }
    bool ok = err.empty();
    if (print || !ok) {
        printf("run %d\n", run_idx);
        const char* emb0 = (const char*)&v.my_embedded_table[0];
        for (auto& e : r.log) {
            if (e.kind == verif::K_NOTE) { printf("n %d %s %llu %llu\n", e.tid, e.tag, (unsigned long long)e.a, (unsigned long long)e.b); continue; }
            if (e.kind > verif::K_FXOR || !e.addr) continue;
            const char* ad = (const char*)e.addr;
            std::string var, a, b;
            int vk = 0;   // 0 numeric, 1 table pointer, 2 slot
            size_t sk = 0;
            if (e.addr == (const void*)&v.my_size) var = "size";
            else if (e.addr == (const void*)&v.my_first_block) var = "fb";
            else if (e.addr == (const void*)&v.my_segment_table) { var = "tptr"; vk = 1; }
            else if (e.addr == (const void*)&v.my_segment_table_allocation_failed) var = "failed";
            else if (ad >= emb0 && ad < emb0 + sizeof(void*) * vec_t::pointers_per_embedded_table) { sk = (ad - emb0) / sizeof(void*); var = "E." + std::to_string(sk); vk = 2; }
            else {
                for (size_t j = 0; j < g_tb.size(); ++j) if (ad >= g_tb[j].base && ad < g_tb[j].base + g_tb[j].n * sizeof(void*)) { sk = (ad - g_tb[j].base) / sizeof(void*); var = "L" + std::to_string(j + 1) + "." + std::to_string(sk); vk = 2; }
                if (var.empty()) continue;
            }
            auto nm = [&](uint64_t x) { return vk == 1 ? tab_name(x) : vk == 2 ? slot_name(x, sk) : std::to_string((unsigned long long)x); };
            a = nm(e.a); b = (e.kind == verif::K_LOAD) ? "0" : nm(e.b);
            printf("e %d %s %s %s %s %s %d\n", e.tid, verif::kind_name(e.kind), var.c_str(), verif::order_name(e.order), a.c_str(), b.c_str(), e.ok);
        }
        puts(finals.c_str());
        printf("mon %s\n", ok ? "ok" : ("VIOLATION " + err).c_str());
        if (!g_known.empty()) printf("known %s\n", g_known.c_str());
        if (faulty) printf("faults_fired %ld\n", g_faults_fired);
        printf("sched"); for (int s : r.schedule) printf(" %d", s); printf("\nend\n");
        fflush(stdout);
    }
    if (r.deadlock) { fflush(stdout); _exit(3); }
    // destructibility: the destructor frees every live allocation exactly once and nothing else
    delete vp; g_v = nullptr;
    std::string derr = g_err;
    for (size_t a = 0; a < g_el.size(); ++a) if (g_el[a].live && derr.empty() && !(faulty && g_faults_fired)) derr = "allocation A" + std::to_string(a) + " not released by the destructor";
    for (size_t a = 0; a < g_tb.size(); ++a) if (g_tb[a].live && derr.empty()) derr = "table L" + std::to_string(a + 1) + " not released by the destructor";
    for (void* p : g_grave) ::operator delete(p);
    g_grave.clear();
    if (ok && !derr.empty()) { ok = false; printf("run %d\nmon VIOLATION destructor: %s\nsched", run_idx, derr.c_str()); for (int s : r.schedule) printf(" %d", s); printf("\nend\n"); fflush(stdout); }
    return ok;
}

int main(int argc, char** argv) {
    if (argc < 3) return 2;
    verif::report_crashes();
    verif::set_idle_round_limit(40);     // the spin loops of this header are memoryless: 40 idle rounds are plenty
    char line[4096];
    while (fgets(line, sizeof line, stdin)) {
        std::istringstream is(line); std::string w; is >> w;
        if (w != "prog") continue;
        std::vector<Op> ops; std::string k; unsigned long long a;
        while (is >> k >> a) ops.push_back({k == "push" ? 0 : k == "by" ? 1 : 2, (size_t)a, 0, 0, false, 0});
        g_progs.push_back(ops);
    }
    std::string mode = argv[1];
    long maxruns = argc > 3 ? atol(argv[3]) : 1;
    long runs = 0, bad = 0;
    if (mode == "rand") {
        unsigned long long seed = strtoull(argv[2], 0, 10);
        for (long i = 0; i < maxruns; ++i) { verif::RandomSchedule s(seed * 7919 + i, 64 + (int)(i % 3) * 64); if (!run_once(s, (int)i, true)) bad++; runs++; }
    } else if (mode == "dfs" || mode == "dfsp") {
        verif::DfsSchedule d(atoi(argv[2]));
        do { if (!run_once(d, (int)runs, mode == "dfsp")) { bad++; break; } runs++; } while (runs < maxruns && d.next());
    } else if (mode == "replay") {
        verif::ReplaySchedule s; std::stringstream ss(argv[2]); std::string tok;
        while (std::getline(ss, tok, ',')) if (!tok.empty()) s.tids.push_back(atoi(tok.c_str()));
        if (!run_once(s, 0, true)) bad++; runs++;
    }
    printf("summary runs=%ld bad=%ld\n", runs, bad);
    return bad ? 1 : 0;
}
