// E-REAL harness for C06: the real parallel_reduce / parallel_deterministic_reduce / parallel_scan /
// parallel_sort of /repo's current tree on real threads, with RECORDING free-monoid bodies.
// One scenario per input line, one result line per scenario.
//
// Event log (global, lock-free; the log index is the time stamp, taken when the operation STARTS):
//   S z b        body z constructed by Body(b, split())        (z = stamp+1 of this event, user's body = 0)
//   R b lo hi    b(range [lo,hi))                               (reduce)
//   J b z        b.join(z)            (reduce)   /   b.reverse_join(z)   (scan)
//   X lo mid hi  LRange split constructor: [lo,hi) keeps [lo,mid), new range [mid,hi)
//   D lo hi      LRange::is_divisible() (only logged for scan)
//   P b lo hi    b(range, pre_scan_tag)
//   F b lo hi ok len   b(range, final_scan_tag); ok = b's value before the call was exactly [0..lo), len its length
//   A b a        b.assign(a)
//   E b lo hi    end of the body call b(range [lo,hi)) (only logged when re-entrant bodies are on)
// every event is followed by the id of the thread that logged it.
//
// RE-ENTRANT BODIES (optional trailing token `re=<mode>` of reduce / det / scan, mode >= 1):  the Range's split
// constructor — which the algorithms run just BEFORE they spawn the right child — may run an empty task in a global
// tbb::task_group (so that task lies BELOW the right child in the owner's deque), and leaf bodies call
// task_group::wait() inside operator(): the wait's dispatch loop pops the owner's deque from the top, i.e. it runs the
// sibling right children NESTED inside the left leaf's body call, on the same thread (not stolen), while the left
// sibling is unfinished.  Works with one thread, fully deterministic.  No isolation is used (isolation would hide
// the right children from the nested wait).  mode-1 = where + 3*kind + 6*s:  where 0/1/2 = wait before / in the
// middle of / after the body's own work;  kind 1 = additionally a nested parallel_for before the wait;
// s+1 = every (s+1)-th split (seed-hashed) runs a task_group task.
//
// FORCED STEAL (`fsteal`): the arena's only worker is parked in an enqueued task until the main thread has finished
// the whole left half and written m_left_sum; then it steals the root's right child (a REAL steal after the left
// sibling completed — the case in which `is_stolen(ed)` alone decides).
#include <oneapi/tbb/parallel_reduce.h>
#include <oneapi/tbb/parallel_scan.h>
#include <oneapi/tbb/parallel_sort.h>
#include <oneapi/tbb/blocked_range.h>
#include <oneapi/tbb/global_control.h>
#include <oneapi/tbb/task_arena.h>
#include <oneapi/tbb/task_group.h>
#include <oneapi/tbb/parallel_for.h>
#include <algorithm>
#include <atomic>
#include <chrono>
#include <cstdio>
#include <cstdlib>
#include <unistd.h>
#include <iostream>
#include <memory>
#include <sstream>
#include <string>
#include <thread>
#include <vector>

struct Ev { char k; long a, b, c, d; int tid; };
static const size_t CAP = 1 << 22;
static std::vector<Ev> g_log(CAP);
static std::atomic<size_t> g_n{0};
static std::atomic<int> g_tids{0};
static bool g_log_div = false;
static unsigned long g_seed = 0;
static int g_delay = 0;

static int tid() { thread_local int t = g_tids.fetch_add(1); return t; }
static long logev(char k, long a = 0, long b = 0, long c = 0, long d = 0) {
    size_t i = g_n.fetch_add(1);
    if (i < CAP) g_log[i] = Ev{k, a, b, c, d, tid()};
    return (long)i;
}
static void reset_log() { g_n = 0; }

static inline unsigned long mix(unsigned long x) { x ^= x >> 33; x *= 0xff51afd7ed558ccdUL; x ^= x >> 33; x *= 0xc4ceb9fe1a85ec53UL; x ^= x >> 33; return x; }
// schedule perturbation: a pseudo-random busy wait per chunk (depends on seed and position only)
static void perturb(long pos) {
    if (!g_delay) return;
    unsigned long h = mix(g_seed * 0x9E3779B97F4A7C15UL + (unsigned long)pos);
    unsigned long spins = (h % 8 == 0) ? (h >> 8) % (unsigned long)(g_delay * 40) : (h >> 8) % (unsigned long)g_delay;
    for (volatile unsigned long i = 0; i < spins * 50; ++i) {}
}

// ---- re-entrant bodies -------------------------------------------------------------------------
struct Reenter { int on = 0, where = 0, kind = 0; unsigned smod = 1; };
static Reenter g_re;
static tbb::task_group* g_tg = nullptr;
static bool set_reenter(std::istringstream& in) {
    g_re = Reenter();
    std::string w;
    if (!(in >> w)) return true;
    if (w.rfind("re=", 0) != 0) return false;
    int mode = 0;
    try { mode = std::stoi(w.substr(3)); } catch (...) { return false; }
    if (mode < 0 || mode > 18) return false;
    if (mode > 0) { int m = mode - 1; g_re.on = 1; g_re.where = m % 3; g_re.kind = (m / 3) % 2; g_re.smod = (unsigned)((m / 6) % 3 + 1); }
    return true;
}
// called from the Range's split constructor, i.e. before the algorithm spawns the new right child
static void re_split_hook(long lo, long hi) {
    if (g_re.on && g_tg && mix(g_seed * 31 + (unsigned long)lo * 1000003UL + (unsigned long)hi) % g_re.smod == 0) g_tg->run([] {});
}
// called from inside a leaf body: re-enter the scheduler
static void re_wait(int where) {
    if (!g_re.on || g_re.where != where || !g_tg) return;
    if (g_re.kind == 1) tbb::parallel_for(0, 4, [](int) { for (volatile int i = 0; i < 2000; ++i) {} });
    g_tg->wait();
}
template <class F> static void with_reentry(F f) {
    if (!g_re.on) { f(); return; }
    tbb::task_group tg;
    g_tg = &tg;
    f();
    tg.wait();
    g_tg = nullptr;
}

// ---- forced steal -------------------------------------------------------------------------------
struct FSteal {
    std::atomic<int> armed{0}, leaf_done{0}, go{0}, right_started{0}, blocker_running{0}, fired{0}, timed_out{0};
    long mid = 0, hi = 0; int main_tid = -1; long timeout_ms = 300;
};
static FSteal g_fs;
template <class Cond> static bool spin_until(Cond c, long ms) {
    auto t0 = std::chrono::steady_clock::now();
    while (!c()) {
        if (std::chrono::steady_clock::now() - t0 > std::chrono::milliseconds(ms)) return false;
        std::this_thread::yield();
    }
    return true;
}

// a Range that reports its splits (public Range concept only; midpoint split like blocked_range)
struct LRange {
    long b, e, g;
    LRange(long b_, long e_, long g_) : b(b_), e(e_), g(g_) {}
    LRange(const LRange&) = default;
    bool empty() const { return !(b < e); }
    bool is_divisible() const {
        if (g_log_div) logev('D', b, e);
        if (g_fs.armed.load(std::memory_order_relaxed) && b == g_fs.mid && e == g_fs.hi) g_fs.right_started = 1;
        return g < e - b;
    }
    LRange(LRange& r, tbb::split) : b(0), e(r.e), g(r.g) {
        long m = r.b + (r.e - r.b) / 2;
        logev('X', r.b, m, r.e);
        re_split_hook(r.b, r.e);
        r.e = m; b = m;
    }
    ~LRange() {
        // forced steal: this is the range of the start_scan task that has just run the rightmost leaf of the left
        // half and stored m_left_sum; the right half is still in this thread's deque
        if (g_fs.armed.load(std::memory_order_relaxed) && e == g_fs.mid && g_fs.leaf_done.load() && tid() == g_fs.main_tid &&
            !g_fs.fired.exchange(1)) {
            g_fs.go = 1;
            if (!spin_until([] { return g_fs.right_started.load() != 0; }, g_fs.timeout_ms)) g_fs.timed_out = 1;
        }
    }
    long begin() const { return b; }
    long end() const { return e; }
};

static std::string runs_of(const std::vector<long>& v) {
    std::string s;
    size_t i = 0;
    while (i < v.size()) {
        size_t j = i;
        while (j + 1 < v.size() && v[j + 1] == v[j] + 1) ++j;
        if (!s.empty()) s += ",";
        s += std::to_string(v[i]) + "-" + std::to_string(v[j]);
        i = j + 1;
    }
    return s.empty() ? "e" : s;
}

static void print_log() {
    size_t n = std::min(g_n.load(), CAP);
    std::printf(" overflow=%d log=", g_n.load() > CAP ? 1 : 0);
    for (size_t i = 0; i < n; ++i) {
        const Ev& e = g_log[i];
        if (i) std::putchar(';');
        switch (e.k) {
        case 'S': std::printf("S %ld %ld %d", (long)i + 1, e.b, e.tid); break;
        case 'J': case 'A': std::printf("%c %ld %ld %d", e.k, e.a, e.b, e.tid); break;
        case 'D': std::printf("D %ld %ld %d", e.a, e.b, e.tid); break;
        case 'F': std::printf("F %ld %ld %ld %d %ld %d", e.a, e.b, e.c, (e.d % 2) ? 0 : 1, e.d / 2, e.tid); break;
        default: std::printf("%c %ld %ld %ld %d", e.k, e.a, e.b, e.c, e.tid); break;
        }
    }
    std::puts("");
}

// ---------------------------------------------------------------------------------------------
// parallel_reduce: free-monoid body (vector concatenation is associative and not commutative)
// ---------------------------------------------------------------------------------------------
struct RBody {
    long id;
    std::vector<long> val;
    RBody() : id(0) {}
    RBody(RBody& o, tbb::split) { id = logev('S', 0, o.id) + 1; }
    template <class Range> void operator()(const Range& r) {
        long lo = (long)r.begin(), hi = (long)r.end(), m = lo + (hi - lo) / 2;
        logev('R', id, lo, hi);
        perturb(lo);
        re_wait(0);
        for (long i = lo; i < m; ++i) val.push_back(i);
        re_wait(1);
        for (long i = m; i < hi; ++i) val.push_back(i);
        re_wait(2);
        if (g_re.on) logev('E', id, lo, hi);
    }
    void join(RBody& rhs) {
        logev('J', id, rhs.id);
        val.insert(val.end(), rhs.val.begin(), rhs.val.end());
    }
};

template <class F> static void in_arena(int threads, F f) {
    tbb::global_control gc(tbb::global_control::max_allowed_parallelism, (size_t)threads);
    tbb::task_arena arena(threads);
    arena.execute(f);
}

// reduce <range: L|B> <part: simple|auto|static|affinity> <n> <grain> <threads> <seed> <delay>
static void do_reduce(std::istringstream& in) {
    std::string rk, part; long n, grain; int threads;
    if (!(in >> rk >> part >> n >> grain >> threads >> g_seed >> g_delay) || grain < 1 || threads < 1 || n < 0 || !set_reenter(in)) { std::puts("bad-op"); return; }
    reset_log(); g_log_div = false;
    RBody body;
    bool ok = true;
    in_arena(threads, [&] { with_reentry([&] {
        if (rk == "L") {
            LRange r(0, n, grain);
            if (part == "simple") tbb::parallel_reduce(r, body, tbb::simple_partitioner());
            else if (part == "auto") tbb::parallel_reduce(r, body, tbb::auto_partitioner());
            else if (part == "static") tbb::parallel_reduce(r, body, tbb::static_partitioner());
            else if (part == "affinity") { tbb::affinity_partitioner ap; tbb::parallel_reduce(r, body, ap); }
            else ok = false;
        } else if (rk == "B") {
            tbb::blocked_range<long> r(0, n, (size_t)grain);
            if (part == "simple") tbb::parallel_reduce(r, body, tbb::simple_partitioner());
            else if (part == "auto") tbb::parallel_reduce(r, body, tbb::auto_partitioner());
            else if (part == "static") tbb::parallel_reduce(r, body, tbb::static_partitioner());
            else if (part == "affinity") { tbb::affinity_partitioner ap; tbb::parallel_reduce(r, body, ap); }
            else ok = false;
        } else ok = false;
    }); });
    g_re = Reenter();
    if (!ok) { std::puts("bad-op"); return; }
    std::printf("value=%s", runs_of(body.val).c_str());
    print_log();
}

// ---------------------------------------------------------------------------------------------
// parallel_deterministic_reduce: free-magma body (records the exact split/join tree)
// ---------------------------------------------------------------------------------------------
struct DBody {
    std::string v;
    DBody() {}
    DBody(DBody&, tbb::split) {}
    template <class Range> void operator()(const Range& r) {
        perturb(r.begin());
        re_wait(0);
        std::string leaf = "[" + std::to_string(r.begin()) + "," + std::to_string(r.end()) + ")";
        re_wait(1);
        v = v.empty() ? leaf : "(R " + v + " " + std::to_string(r.begin()) + " " + std::to_string(r.end()) + ")";
        re_wait(2);
    }
    void join(DBody& o) { v = "(" + (v.empty() ? std::string("I") : v) + " " + (o.v.empty() ? std::string("I") : o.v) + ")"; }
};

// det <part: simple|static> <n> <grain> <threads> <seed> <delay>
static void do_det(std::istringstream& in) {
    std::string part; long n, grain; int threads;
    if (!(in >> part >> n >> grain >> threads >> g_seed >> g_delay) || grain < 1 || threads < 1 || n < 0 || !set_reenter(in)) { std::puts("bad-op"); return; }
    DBody body;
    size_t divisor = 0;
    bool ok = true;
    reset_log(); g_log_div = false;
    if (g_re.on) {
        // re-entrant bodies need the split hook of LRange (same midpoint split / divisibility as blocked_range)
        if (part != "simple") { g_re = Reenter(); std::puts("bad-op"); return; }
        in_arena(threads, [&] { with_reentry([&] {
            LRange r(0, n, grain);
            tbb::parallel_deterministic_reduce(r, body, tbb::simple_partitioner());
        }); });
        g_re = Reenter();
        std::printf("divisor=%zu term=%s\n", divisor, body.v.empty() ? "I" : body.v.c_str());
        return;
    }
    in_arena(threads, [&] {
        tbb::blocked_range<long> r(0, n, (size_t)grain);
        if (part == "simple") tbb::parallel_deterministic_reduce(r, body, tbb::simple_partitioner());
        else if (part == "static") {
            tbb::static_partitioner sp;
            tbb::detail::d1::static_partition_type p(sp);      // white-box: the task partition the root task gets
            divisor = p.my_divisor;
            tbb::parallel_deterministic_reduce(r, body, sp);
        } else ok = false;
    });
    if (!ok) { std::puts("bad-op"); return; }
    std::printf("divisor=%zu term=%s\n", divisor, body.v.empty() ? "I" : body.v.c_str());
}

// ---------------------------------------------------------------------------------------------
// overload coverage: every public overload of parallel_deterministic_reduce / parallel_reduce must behave like the
// ones the event-log scenarios above use (same split/join term; same in-order value)
// ---------------------------------------------------------------------------------------------
static std::string d_leaf(const tbb::blocked_range<long>& r, const std::string& x) {
    perturb(r.begin());
    std::string leaf = "[" + std::to_string(r.begin()) + "," + std::to_string(r.end()) + ")";
    return x.empty() ? leaf : "(R " + x + " " + std::to_string(r.begin()) + " " + std::to_string(r.end()) + ")";
}
static std::string d_join(const std::string& a, const std::string& b) {
    return "(" + (a.empty() ? std::string("I") : a) + " " + (b.empty() ? std::string("I") : b) + ")";
}

// detov <overload 0..11> <n> <grain> <threads> <seed> <delay>      (term format of `det`)
//   0 body            1 body,simple        2 body,static        3 body,ctx       4 body,simple,ctx     5 body,static,ctx
//   6 func            7 func,simple        8 func,static        9 func,ctx      10 func,simple,ctx    11 func,static,ctx
static void do_detov(std::istringstream& in) {
    int ov; long n, grain; int threads;
    if (!(in >> ov >> n >> grain >> threads >> g_seed >> g_delay) || ov < 0 || ov > 11 || grain < 1 || threads < 1 || n < 0) { std::puts("bad-op"); return; }
    DBody body;
    std::string val;
    size_t divisor = 0;
    reset_log(); g_log_div = false;
    in_arena(threads, [&] {
        tbb::blocked_range<long> r(0, n, (size_t)grain);
        tbb::task_group_context ctx;
        tbb::static_partitioner sp;
        if (ov % 3 == 2) { tbb::detail::d1::static_partition_type p(sp); divisor = p.my_divisor; }
        std::string id;
        switch (ov) {
        case 0: tbb::parallel_deterministic_reduce(r, body); break;
        case 1: tbb::parallel_deterministic_reduce(r, body, tbb::simple_partitioner()); break;
        case 2: tbb::parallel_deterministic_reduce(r, body, sp); break;
        case 3: tbb::parallel_deterministic_reduce(r, body, ctx); break;
        case 4: tbb::parallel_deterministic_reduce(r, body, tbb::simple_partitioner(), ctx); break;
        case 5: tbb::parallel_deterministic_reduce(r, body, sp, ctx); break;
        case 6: val = tbb::parallel_deterministic_reduce(r, id, d_leaf, d_join); break;
        case 7: val = tbb::parallel_deterministic_reduce(r, id, d_leaf, d_join, tbb::simple_partitioner()); break;
        case 8: val = tbb::parallel_deterministic_reduce(r, id, d_leaf, d_join, sp); break;
        case 9: val = tbb::parallel_deterministic_reduce(r, id, d_leaf, d_join, ctx); break;
        case 10: val = tbb::parallel_deterministic_reduce(r, id, d_leaf, d_join, tbb::simple_partitioner(), ctx); break;
        case 11: val = tbb::parallel_deterministic_reduce(r, id, d_leaf, d_join, sp, ctx); break;
        }
    });
    const std::string& t = ov < 6 ? body.v : val;
    std::printf("divisor=%zu term=%s\n", divisor, t.empty() ? "I" : t.c_str());
}

struct VBody {
    std::vector<long> val;
    VBody() {}
    VBody(VBody&, tbb::split) {}
    void operator()(const tbb::blocked_range<long>& r) { perturb(r.begin()); for (long i = r.begin(); i < r.end(); ++i) val.push_back(i); }
    void join(VBody& o) { val.insert(val.end(), o.val.begin(), o.val.end()); }
};
static std::vector<long> v_leaf(const tbb::blocked_range<long>& r, std::vector<long> x) {
    perturb(r.begin());
    for (long i = r.begin(); i < r.end(); ++i) x.push_back(i);
    return x;
}
static std::vector<long> v_join(std::vector<long> a, const std::vector<long>& b) { a.insert(a.end(), b.begin(), b.end()); return a; }

// redov <overload 0..19> <n> <grain> <threads> <seed> <delay>      prints value=<runs>
//   form = ov / 10 (0 body, 1 functional); within a form: 0 default 1 simple 2 auto 3 static 4 affinity, +5 with a user context
static void do_redov(std::istringstream& in) {
    int ov; long n, grain; int threads;
    if (!(in >> ov >> n >> grain >> threads >> g_seed >> g_delay) || ov < 0 || ov > 19 || grain < 1 || threads < 1 || n < 0) { std::puts("bad-op"); return; }
    VBody body;
    std::vector<long> val, id;
    reset_log(); g_log_div = false;
    in_arena(threads, [&] {
        tbb::blocked_range<long> r(0, n, (size_t)grain);
        tbb::task_group_context ctx;
        tbb::affinity_partitioner ap;
        switch (ov) {
        case 0: tbb::parallel_reduce(r, body); break;
        case 1: tbb::parallel_reduce(r, body, tbb::simple_partitioner()); break;
        case 2: tbb::parallel_reduce(r, body, tbb::auto_partitioner()); break;
        case 3: tbb::parallel_reduce(r, body, tbb::static_partitioner()); break;
        case 4: tbb::parallel_reduce(r, body, ap); break;
        case 5: tbb::parallel_reduce(r, body, ctx); break;
        case 6: tbb::parallel_reduce(r, body, tbb::simple_partitioner(), ctx); break;
        case 7: tbb::parallel_reduce(r, body, tbb::auto_partitioner(), ctx); break;
        case 8: tbb::parallel_reduce(r, body, tbb::static_partitioner(), ctx); break;
        case 9: tbb::parallel_reduce(r, body, ap, ctx); break;
        case 10: val = tbb::parallel_reduce(r, id, v_leaf, v_join); break;
        case 11: val = tbb::parallel_reduce(r, id, v_leaf, v_join, tbb::simple_partitioner()); break;
        case 12: val = tbb::parallel_reduce(r, id, v_leaf, v_join, tbb::auto_partitioner()); break;
        case 13: val = tbb::parallel_reduce(r, id, v_leaf, v_join, tbb::static_partitioner()); break;
        case 14: val = tbb::parallel_reduce(r, id, v_leaf, v_join, ap); break;
        case 15: val = tbb::parallel_reduce(r, id, v_leaf, v_join, ctx); break;
        case 16: val = tbb::parallel_reduce(r, id, v_leaf, v_join, tbb::simple_partitioner(), ctx); break;
        case 17: val = tbb::parallel_reduce(r, id, v_leaf, v_join, tbb::auto_partitioner(), ctx); break;
        case 18: val = tbb::parallel_reduce(r, id, v_leaf, v_join, tbb::static_partitioner(), ctx); break;
        case 19: val = tbb::parallel_reduce(r, id, v_leaf, v_join, ap, ctx); break;
        }
    });
    std::printf("value=%s\n", runs_of(ov < 10 ? body.val : val).c_str());
}

// ---------------------------------------------------------------------------------------------
// parallel_scan
// ---------------------------------------------------------------------------------------------
struct SBody {
    long id;
    std::vector<long> val;
    SBody() : id(0) {}
    SBody(SBody& o, tbb::split) { id = logev('S', 0, o.id) + 1; }
    static bool is_prefix(const std::vector<long>& v, long lo) {
        if ((long)v.size() != lo) return false;
        for (long i = 0; i < lo; ++i) if (v[i] != i) return false;
        return true;
    }
    void work(long lo, long hi) {
        long m = lo + (hi - lo) / 2;
        if (g_fs.armed.load(std::memory_order_relaxed) && lo == g_fs.mid) g_fs.right_started = 1;
        re_wait(0);
        for (long i = lo; i < m; ++i) val.push_back(i);
        re_wait(1);
        for (long i = m; i < hi; ++i) val.push_back(i);
        re_wait(2);
        if (g_re.on) logev('E', id, lo, hi);
        if (g_fs.armed.load(std::memory_order_relaxed) && hi == g_fs.mid && tid() == g_fs.main_tid) g_fs.leaf_done = 1;
    }
    template <class Range> void operator()(const Range& r, tbb::pre_scan_tag) {
        logev('P', id, r.begin(), r.end());
        perturb(r.begin());
        work(r.begin(), r.end());
    }
    template <class Range> void operator()(const Range& r, tbb::final_scan_tag) {
        logev('F', id, r.begin(), r.end(), (long)val.size() * 2 + (is_prefix(val, r.begin()) ? 0 : 1));
        perturb(r.begin() + 1000003);
        work(r.begin(), r.end());
    }
    void reverse_join(SBody& a) {
        logev('J', id, a.id);
        std::vector<long> nv(a.val);
        nv.insert(nv.end(), val.begin(), val.end());
        val.swap(nv);
    }
    void assign(SBody& b) { logev('A', id, b.id); val = b.val; }
};

// scan <part: simple|auto> <n> <grain> <threads> <seed> <delay>
static void do_scan(std::istringstream& in) {
    std::string part; long n, grain; int threads;
    if (!(in >> part >> n >> grain >> threads >> g_seed >> g_delay) || grain < 1 || threads < 1 || n < 0 || !set_reenter(in)) { std::puts("bad-op"); return; }
    reset_log(); g_log_div = true;
    SBody body;
    bool ok = true;
    in_arena(threads, [&] { with_reentry([&] {
        LRange r(0, n, grain);
        if (part == "simple") tbb::parallel_scan(r, body, tbb::simple_partitioner());
        else if (part == "auto") tbb::parallel_scan(r, body, tbb::auto_partitioner());
        else ok = false;
    }); });
    g_log_div = false;
    g_re = Reenter();
    if (!ok) { std::puts("bad-op"); return; }
    std::printf("value=%s", runs_of(body.val).c_str());
    print_log();
}

// fsteal <n> <grain> <timeout_ms>: parallel_scan(simple_partitioner) over [0,n) on a 2-slot arena whose only worker is parked
// until the main thread has completed the left half [0,n/2) (and stored the root sum_node's m_left_sum); the worker
// then really steals the root's right child [n/2,n).  forced=1 iff the right child started while the main thread was
// held in the hook (otherwise the run is an ordinary 2-thread run).
static void do_fsteal(std::istringstream& in) {
    long n, grain, tmo;
    if (!(in >> n >> grain >> tmo) || grain < 1 || n < 2 || tmo < 1 || !(grain < n)) { std::puts("bad-op"); return; }
    reset_log(); g_log_div = true; g_seed = 0; g_delay = 0; g_re = Reenter();
    SBody body;
    {
        tbb::global_control gc(tbb::global_control::max_allowed_parallelism, 2);
        tbb::task_arena arena(2);
        g_fs.leaf_done = 0; g_fs.go = 0; g_fs.right_started = 0; g_fs.blocker_running = 0; g_fs.fired = 0; g_fs.timed_out = 0;
        g_fs.mid = n / 2; g_fs.hi = n; g_fs.timeout_ms = tmo;
        arena.enqueue([] { g_fs.blocker_running = 1; spin_until([] { return g_fs.go.load() != 0; }, 20000); });
        bool parked = spin_until([] { return g_fs.blocker_running.load() != 0; }, 2000);
        arena.execute([&] {
            g_fs.main_tid = tid();
            if (parked) g_fs.armed = 1;
            LRange r(0, n, grain);
            tbb::parallel_scan(r, body, tbb::simple_partitioner());
            g_fs.armed = 0;
        });
        g_fs.go = 1;
    }
    g_log_div = false;
    std::printf("value=%s forced=%d", runs_of(body.val).c_str(), (g_fs.fired.load() && !g_fs.timed_out.load()) ? 1 : 0);
    print_log();
}

// scanov <overload 0..5> <n> <grain> <threads> <seed> <delay>
//   0 body   1 body,simple   2 body,auto   3 func   4 func,simple   5 func,auto          (non-commutative: the "sum" is list concatenation)
// prints ok=<0|1> total_ok=<0|1> first_bad=<i>:  y[i] must be the in-order prefix x[0..i], the returned total the full reduction
struct OvScanBody {
    std::vector<long> sum; std::vector<std::vector<long>>* out;
    OvScanBody(std::vector<std::vector<long>>* o) : out(o) {}
    OvScanBody(OvScanBody& b, tbb::split) : out(b.out) {}
    template <class Tag> void operator()(const tbb::blocked_range<long>& r, Tag) {
        perturb(r.begin());
        for (long i = r.begin(); i < r.end(); ++i) { sum.push_back(i); if (Tag::is_final_scan()) (*out)[i] = sum; }
    }
    void reverse_join(OvScanBody& left) { std::vector<long> v = left.sum; v.insert(v.end(), sum.begin(), sum.end()); sum.swap(v); }
    void assign(OvScanBody& b) { sum = b.sum; }
};
static void do_scanov(std::istringstream& in) {
    int ov; long n, grain; int threads;
    if (!(in >> ov >> n >> grain >> threads >> g_seed >> g_delay) || ov < 0 || ov > 5 || grain < 1 || threads < 1 || n < 0 || n > 4000) { std::puts("bad-op"); return; }
    std::vector<std::vector<long>> out((size_t)n);
    std::vector<long> total;
    reset_log(); g_log_div = false;
    in_arena(threads, [&] {
        tbb::blocked_range<long> r(0, n, (size_t)grain);
        OvScanBody body(&out);
        auto scan = [&out](const tbb::blocked_range<long>& rr, std::vector<long> s, bool is_final) {
            perturb(rr.begin());
            for (long i = rr.begin(); i < rr.end(); ++i) { s.push_back(i); if (is_final) out[i] = s; }
            return s;
        };
        auto rj = [](std::vector<long> l, const std::vector<long>& rgt) { l.insert(l.end(), rgt.begin(), rgt.end()); return l; };
        std::vector<long> id;
        switch (ov) {
        case 0: tbb::parallel_scan(r, body); total = body.sum; break;
        case 1: tbb::parallel_scan(r, body, tbb::simple_partitioner()); total = body.sum; break;
        case 2: tbb::parallel_scan(r, body, tbb::auto_partitioner()); total = body.sum; break;
        case 3: total = tbb::parallel_scan(r, id, scan, rj); break;
        case 4: total = tbb::parallel_scan(r, id, scan, rj, tbb::simple_partitioner()); break;
        case 5: total = tbb::parallel_scan(r, id, scan, rj, tbb::auto_partitioner()); break;
        }
    });
    long first_bad = -1;
    for (long i = 0; i < n && first_bad < 0; ++i) {
        if ((long)out[i].size() != i + 1) { first_bad = i; break; }
        for (long k = 0; k <= i; ++k) if (out[i][k] != k) { first_bad = i; break; }
    }
    bool tok = (long)total.size() == n;
    for (long k = 0; k < n && tok; ++k) if (total[k] != k) tok = false;
    std::printf("ok=%d total_ok=%d first_bad=%ld\n", first_bad < 0 ? 1 : 0, tok ? 1 : 0, first_bad);
}

// sortov <overload 0..3> <threads> <n> a0 ... a(n-1)     0 (begin,end,comp)  1 (begin,end)  2 (range,comp)  3 (range)
// prints sorted=<0|1> perm=<0|1>   (comparator: operator< on the key; items carry their original index)
struct OvItem { unsigned long key; long idx; bool operator<(const OvItem& o) const { return key < o.key; } };
static void do_sortov(std::istringstream& in) {
    int ov, threads; size_t n;
    if (!(in >> ov >> threads >> n) || ov < 0 || ov > 3 || threads < 1) { std::puts("bad-op"); return; }
    std::vector<OvItem> a(n);
    for (size_t i = 0; i < n; ++i) { if (!(in >> a[i].key)) { std::puts("bad-op"); return; } a[i].idx = (long)i; }
    std::vector<OvItem> orig(a);
    auto cmp = [](const OvItem& x, const OvItem& y) { return x.key < y.key; };
    in_arena(threads, [&] {
        switch (ov) {
        case 0: tbb::parallel_sort(a.begin(), a.end(), cmp); break;
        case 1: tbb::parallel_sort(a.begin(), a.end()); break;
        case 2: tbb::parallel_sort(a, cmp); break;
        case 3: tbb::parallel_sort(a); break;
        }
    });
    bool sorted = true, perm = a.size() == n;
    for (size_t i = 1; i < a.size(); ++i) if (a[i].key < a[i - 1].key) sorted = false;
    std::vector<unsigned char> seen(n, 0);
    for (size_t i = 0; i < a.size() && perm; ++i) { long ix = a[i].idx; if (ix < 0 || (size_t)ix >= n || seen[ix] || orig[ix].key != a[i].key) perm = false; else seen[ix] = 1; }
    std::printf("sorted=%d perm=%d\n", sorted ? 1 : 0, perm ? 1 : 0);
}

// ---------------------------------------------------------------------------------------------
// parallel_sort
// ---------------------------------------------------------------------------------------------
struct Item { unsigned long key; long idx; };
static std::vector<unsigned char> g_cover;     // g_cover[k] = the pair (k-1,k) of original positions was compared
static std::atomic<long> g_calls{0}, g_nonadj{0};
struct SCmp {
    int kind; unsigned long p;
    bool less(unsigned long x, unsigned long y) const {
        switch (kind) {
        case 0: return x < y;
        case 1: return x > y;
        case 2: return x / p < y / p;
        default: return x % p < y % p;
        }
    }
    bool operator()(const Item& a, const Item& b) const {
        long d = a.idx - b.idx;
        g_calls.fetch_add(1, std::memory_order_relaxed);
        if (d == 1) g_cover[a.idx] = 1; else if (d == -1) g_cover[b.idx] = 1; else g_nonadj.fetch_add(1, std::memory_order_relaxed);
        return less(a.key, b.key);
    }
};
static bool parse_cmp(const std::string& w, SCmp& c) {
    if (w == "lt") { c = {0, 1}; return true; }
    if (w == "gt") { c = {1, 1}; return true; }
    try {
        if (w.rfind("div", 0) == 0) { c = {2, std::stoul(w.substr(3))}; return c.p != 0; }
        if (w.rfind("mod", 0) == 0) { c = {3, std::stoul(w.substr(3))}; return c.p != 0; }
    } catch (...) {}
    return false;
}

// sort <cmp> <threads> <n> a0 … a(n-1)
static void do_sort(std::istringstream& in) {
    std::string cw; int threads; size_t n; SCmp c;
    if (!(in >> cw >> threads >> n) || !parse_cmp(cw, c) || threads < 1) { std::puts("bad-op"); return; }
    // exact-size heap block (no vector slack), so that a sanitizer build sees any access outside [begin,end)
    std::unique_ptr<Item[]> buf(new Item[n]);
    Item* a = buf.get();
    for (size_t i = 0; i < n; ++i) { if (!(in >> a[i].key)) { std::puts("bad-op"); return; } a[i].idx = (long)i; }
    g_cover.assign(n + 1, 0);
    g_calls = 0; g_nonadj = 0;
    std::vector<Item> orig(a, a + n);
    in_arena(threads, [&] { tbb::parallel_sort(a, a + n, c); });
    // monitors: sorted w.r.t. the comparator; permutation of the input (every original index exactly once, keys intact)
    long first_unsorted = -1;
    for (size_t i = 1; i < n; ++i) if (c.less(a[i].key, a[i - 1].key)) { first_unsorted = (long)i; break; }
    bool perm = true;
    std::vector<unsigned char> seen(n, 0);
    for (size_t i = 0; i < n && perm; ++i) {
        long ix = a[i].idx;
        if (ix < 0 || (size_t)ix >= n || seen[ix] || orig[ix].key != a[i].key) perm = false; else seen[ix] = 1;
    }
    bool moved = false;
    for (size_t i = 0; i < n; ++i) if (a[i].idx != (long)i) { moved = true; break; }
    long uncovered = 0, first_uncovered = -1;
    for (size_t k = 1; k < n; ++k) if (!g_cover[k]) { ++uncovered; if (first_uncovered < 0) first_uncovered = (long)k; }
    std::printf("sorted=%d first_unsorted=%ld perm=%d moved=%d uncovered=%ld first_uncovered=%ld calls=%ld nonadj=%ld\n",
                first_unsorted < 0 ? 1 : 0, first_unsorted, perm ? 1 : 0, moved ? 1 : 0, uncovered, first_uncovered,
                g_calls.load(), g_nonadj.load());
}

// watchdog: a scenario that does not return (a broken tree can corrupt a body shared by two threads, or lose a task)
// must not stall the whole check: report it and die, the driver script restarts the harness after the offending line
static std::atomic<long> g_scenario{0};
static void watchdog(long limit_s) {
    long seen = -1;
    auto since = std::chrono::steady_clock::now();
    for (;;) {
        std::this_thread::sleep_for(std::chrono::milliseconds(200));
        long cur = g_scenario.load();
        auto now = std::chrono::steady_clock::now();
        if (cur != seen) { seen = cur; since = now; continue; }
        if (cur % 2 == 1 && now - since > std::chrono::seconds(limit_s)) {
            std::fprintf(stderr, "WATCHDOG: scenario %ld did not return within %ld s\n", cur / 2, limit_s);
            std::fflush(stderr);
            _exit(86);
        }
    }
}

int main() {
    long limit_s = 10;
    if (const char* e = std::getenv("C06_SCENARIO_TIMEOUT")) limit_s = std::atol(e) > 0 ? std::atol(e) : limit_s;
    std::thread(watchdog, limit_s).detach();
    std::string line;
    while (std::getline(std::cin, line)) {
        std::istringstream in(line);
        std::string op; in >> op;
        if (op.empty()) continue;
        g_scenario.fetch_add(1);      // odd: a scenario is running
        if (op == "reduce") do_reduce(in);
        else if (op == "det") do_det(in);
        else if (op == "detov") do_detov(in);
        else if (op == "redov") do_redov(in);
        else if (op == "scanov") do_scanov(in);
        else if (op == "sortov") do_sortov(in);
        else if (op == "scan") do_scan(in);
        else if (op == "fsteal") do_fsteal(in);
        else if (op == "sort") do_sort(in);
        else std::puts("bad-op");
        std::fflush(stdout);
        g_scenario.fetch_add(1);      // even: idle
    }
    return 0;
}
