// E-REAL harness for C06: the real parallel_reduce / parallel_deterministic_reduce / parallel_scan /
// parallel_sort of /repo's current tree on real threads, with RECORDING free-monoid bodies.
// One scenario per input line, one result line per scenario.
//
// Event log (global, lock-free; the log index is the time stamp, taken when the operation STARTS):
//   S z b        body z constructed by Body(b, split())        (z = stamp+1 of this event, user's body = 0)
//   R b lo hi    b(range [lo,hi))                               (reduce)
//   J b z        b.join(z)            (reduce)   /   b.reverse_join(z)   (scan)
//   X lo mid hi  LRange split constructor: [lo,hi) keeps [lo,mid), new range [mid,hi)
//   D lo hi      LRange::is_divisible() (only logged for scan)
//   P b lo hi    b(range, pre_scan_tag)
//   F b lo hi ok len   b(range, final_scan_tag); ok = b's value before the call was exactly [0..lo), len its length
//   A b a        b.assign(a)
// every event is followed by the id of the thread that logged it.
#include <oneapi/tbb/parallel_reduce.h>
#include <oneapi/tbb/parallel_scan.h>
#include <oneapi/tbb/parallel_sort.h>
#include <oneapi/tbb/blocked_range.h>
#include <oneapi/tbb/global_control.h>
#include <oneapi/tbb/task_arena.h>
#include <algorithm>
#include <atomic>
#include <cstdio>
#include <iostream>
#include <memory>
#include <sstream>
#include <string>
#include <vector>

struct Ev { char k; long a, b, c, d; int tid; };
static const size_t CAP = 1 << 22;
static std::vector<Ev> g_log(CAP);
static std::atomic<size_t> g_n{0};
static std::atomic<int> g_tids{0};
static bool g_log_div = false;
static unsigned long g_seed = 0;
static int g_delay = 0;

static int tid() { thread_local int t = g_tids.fetch_add(1); return t; }
static long logev(char k, long a = 0, long b = 0, long c = 0, long d = 0) {
    size_t i = g_n.fetch_add(1);
    if (i < CAP) g_log[i] = Ev{k, a, b, c, d, tid()};
    return (long)i;
}
static void reset_log() { g_n = 0; }

static inline unsigned long mix(unsigned long x) { x ^= x >> 33; x *= 0xff51afd7ed558ccdUL; x ^= x >> 33; x *= 0xc4ceb9fe1a85ec53UL; x ^= x >> 33; return x; }
// schedule perturbation: a pseudo-random busy wait per chunk (depends on seed and position only)
static void perturb(long pos) {
    if (!g_delay) return;
    unsigned long h = mix(g_seed * 0x9E3779B97F4A7C15UL + (unsigned long)pos);
    unsigned long spins = (h % 8 == 0) ? (h >> 8) % (unsigned long)(g_delay * 40) : (h >> 8) % (unsigned long)g_delay;
    for (volatile unsigned long i = 0; i < spins * 50; ++i) {}
}

// a Range that reports its splits (public Range concept only; midpoint split like blocked_range)
struct LRange {
    long b, e, g;
    LRange(long b_, long e_, long g_) : b(b_), e(e_), g(g_) {}
    bool empty() const { return !(b < e); }
    bool is_divisible() const { if (g_log_div) logev('D', b, e); return g < e - b; }
    LRange(LRange& r, tbb::split) : b(0), e(r.e), g(r.g) {
        long m = r.b + (r.e - r.b) / 2;
        logev('X', r.b, m, r.e);
        r.e = m; b = m;
    }
    long begin() const { return b; }
    long end() const { return e; }
};

static std::string runs_of(const std::vector<long>& v) {
    std::string s;
    size_t i = 0;
    while (i < v.size()) {
        size_t j = i;
        while (j + 1 < v.size() && v[j + 1] == v[j] + 1) ++j;
        if (!s.empty()) s += ",";
        s += std::to_string(v[i]) + "-" + std::to_string(v[j]);
        i = j + 1;
    }
    return s.empty() ? "e" : s;
}

static void print_log() {
    size_t n = std::min(g_n.load(), CAP);
    std::printf(" overflow=%d log=", g_n.load() > CAP ? 1 : 0);
    for (size_t i = 0; i < n; ++i) {
        const Ev& e = g_log[i];
        if (i) std::putchar(';');
        switch (e.k) {
        case 'S': std::printf("S %ld %ld %d", (long)i + 1, e.b, e.tid); break;
        case 'J': case 'A': std::printf("%c %ld %ld %d", e.k, e.a, e.b, e.tid); break;
        case 'D': std::printf("D %ld %ld %d", e.a, e.b, e.tid); break;
        case 'F': std::printf("F %ld %ld %ld %d %ld %d", e.a, e.b, e.c, (e.d % 2) ? 0 : 1, e.d / 2, e.tid); break;
        default: std::printf("%c %ld %ld %ld %d", e.k, e.a, e.b, e.c, e.tid); break;
        }
    }
    std::puts("");
}

// ---------------------------------------------------------------------------------------------
// parallel_reduce: free-monoid body (vector concatenation is associative and not commutative)
// ---------------------------------------------------------------------------------------------
struct RBody {
    long id;
    std::vector<long> val;
    RBody() : id(0) {}
    RBody(RBody& o, tbb::split) { id = logev('S', 0, o.id) + 1; }
    template <class Range> void operator()(const Range& r) {
        logev('R', id, (long)r.begin(), (long)r.end());
        perturb((long)r.begin());
        for (long i = (long)r.begin(); i < (long)r.end(); ++i) val.push_back(i);
    }
    void join(RBody& rhs) {
        logev('J', id, rhs.id);
        val.insert(val.end(), rhs.val.begin(), rhs.val.end());
    }
};

template <class F> static void in_arena(int threads, F f) {
    tbb::global_control gc(tbb::global_control::max_allowed_parallelism, (size_t)threads);
    tbb::task_arena arena(threads);
    arena.execute(f);
}

// reduce <range: L|B> <part: simple|auto|static|affinity> <n> <grain> <threads> <seed> <delay>
static void do_reduce(std::istringstream& in) {
    std::string rk, part; long n, grain; int threads;
    if (!(in >> rk >> part >> n >> grain >> threads >> g_seed >> g_delay) || grain < 1 || threads < 1 || n < 0) { std::puts("bad-op"); return; }
    reset_log(); g_log_div = false;
    RBody body;
    bool ok = true;
    in_arena(threads, [&] {
        if (rk == "L") {
            LRange r(0, n, grain);
            if (part == "simple") tbb::parallel_reduce(r, body, tbb::simple_partitioner());
            else if (part == "auto") tbb::parallel_reduce(r, body, tbb::auto_partitioner());
            else if (part == "static") tbb::parallel_reduce(r, body, tbb::static_partitioner());
            else if (part == "affinity") { tbb::affinity_partitioner ap; tbb::parallel_reduce(r, body, ap); }
            else ok = false;
        } else if (rk == "B") {
            tbb::blocked_range<long> r(0, n, (size_t)grain);
            if (part == "simple") tbb::parallel_reduce(r, body, tbb::simple_partitioner());
            else if (part == "auto") tbb::parallel_reduce(r, body, tbb::auto_partitioner());
            else if (part == "static") tbb::parallel_reduce(r, body, tbb::static_partitioner());
            else if (part == "affinity") { tbb::affinity_partitioner ap; tbb::parallel_reduce(r, body, ap); }
            else ok = false;
        } else ok = false;
    });
    if (!ok) { std::puts("bad-op"); return; }
    std::printf("value=%s", runs_of(body.val).c_str());
    print_log();
}

// ---------------------------------------------------------------------------------------------
// parallel_deterministic_reduce: free-magma body (records the exact split/join tree)
// ---------------------------------------------------------------------------------------------
struct DBody {
    std::string v;
    DBody() {}
    DBody(DBody&, tbb::split) {}
    void operator()(const tbb::blocked_range<long>& r) {
        perturb(r.begin());
        std::string leaf = "[" + std::to_string(r.begin()) + "," + std::to_string(r.end()) + ")";
        v = v.empty() ? leaf : "(R " + v + " " + std::to_string(r.begin()) + " " + std::to_string(r.end()) + ")";
    }
    void join(DBody& o) { v = "(" + (v.empty() ? std::string("I") : v) + " " + (o.v.empty() ? std::string("I") : o.v) + ")"; }
};

// det <part: simple|static> <n> <grain> <threads> <seed> <delay>
static void do_det(std::istringstream& in) {
    std::string part; long n, grain; int threads;
    if (!(in >> part >> n >> grain >> threads >> g_seed >> g_delay) || grain < 1 || threads < 1 || n < 0) { std::puts("bad-op"); return; }
    DBody body;
    size_t divisor = 0;
    bool ok = true;
    in_arena(threads, [&] {
        tbb::blocked_range<long> r(0, n, (size_t)grain);
        if (part == "simple") tbb::parallel_deterministic_reduce(r, body, tbb::simple_partitioner());
        else if (part == "static") {
            tbb::static_partitioner sp;
            tbb::detail::d1::static_partition_type p(sp);      // white-box: the task partition the root task gets
            divisor = p.my_divisor;
            tbb::parallel_deterministic_reduce(r, body, sp);
        } else ok = false;
    });
    if (!ok) { std::puts("bad-op"); return; }
    std::printf("divisor=%zu term=%s\n", divisor, body.v.empty() ? "I" : body.v.c_str());
}

// ---------------------------------------------------------------------------------------------
// parallel_scan
// ---------------------------------------------------------------------------------------------
struct SBody {
    long id;
    std::vector<long> val;
    SBody() : id(0) {}
    SBody(SBody& o, tbb::split) { id = logev('S', 0, o.id) + 1; }
    static bool is_prefix(const std::vector<long>& v, long lo) {
        if ((long)v.size() != lo) return false;
        for (long i = 0; i < lo; ++i) if (v[i] != i) return false;
        return true;
    }
    template <class Range> void operator()(const Range& r, tbb::pre_scan_tag) {
        logev('P', id, r.begin(), r.end());
        perturb(r.begin());
        for (long i = r.begin(); i < r.end(); ++i) val.push_back(i);
    }
    template <class Range> void operator()(const Range& r, tbb::final_scan_tag) {
        logev('F', id, r.begin(), r.end(), (long)val.size() * 2 + (is_prefix(val, r.begin()) ? 0 : 1));
        perturb(r.begin() + 1000003);
        for (long i = r.begin(); i < r.end(); ++i) val.push_back(i);
    }
    void reverse_join(SBody& a) {
        logev('J', id, a.id);
        std::vector<long> nv(a.val);
        nv.insert(nv.end(), val.begin(), val.end());
        val.swap(nv);
    }
    void assign(SBody& b) { logev('A', id, b.id); val = b.val; }
};

// scan <part: simple|auto> <n> <grain> <threads> <seed> <delay>
static void do_scan(std::istringstream& in) {
    std::string part; long n, grain; int threads;
    if (!(in >> part >> n >> grain >> threads >> g_seed >> g_delay) || grain < 1 || threads < 1 || n < 0) { std::puts("bad-op"); return; }
    reset_log(); g_log_div = true;
    SBody body;
    bool ok = true;
    in_arena(threads, [&] {
        LRange r(0, n, grain);
        if (part == "simple") tbb::parallel_scan(r, body, tbb::simple_partitioner());
        else if (part == "auto") tbb::parallel_scan(r, body, tbb::auto_partitioner());
        else ok = false;
    });
    g_log_div = false;
    if (!ok) { std::puts("bad-op"); return; }
    std::printf("value=%s", runs_of(body.val).c_str());
    print_log();
}

// ---------------------------------------------------------------------------------------------
// parallel_sort
// ---------------------------------------------------------------------------------------------
struct Item { unsigned long key; long idx; };
static std::vector<unsigned char> g_cover;     // g_cover[k] = the pair (k-1,k) of original positions was compared
static std::atomic<long> g_calls{0}, g_nonadj{0};
struct SCmp {
    int kind; unsigned long p;
    bool less(unsigned long x, unsigned long y) const {
        switch (kind) {
        case 0: return x < y;
        case 1: return x > y;
        case 2: return x / p < y / p;
        default: return x % p < y % p;
        }
    }
    bool operator()(const Item& a, const Item& b) const {
        long d = a.idx - b.idx;
        g_calls.fetch_add(1, std::memory_order_relaxed);
        if (d == 1) g_cover[a.idx] = 1; else if (d == -1) g_cover[b.idx] = 1; else g_nonadj.fetch_add(1, std::memory_order_relaxed);
        return less(a.key, b.key);
    }
};
static bool parse_cmp(const std::string& w, SCmp& c) {
    if (w == "lt") { c = {0, 1}; return true; }
    if (w == "gt") { c = {1, 1}; return true; }
    try {
        if (w.rfind("div", 0) == 0) { c = {2, std::stoul(w.substr(3))}; return c.p != 0; }
        if (w.rfind("mod", 0) == 0) { c = {3, std::stoul(w.substr(3))}; return c.p != 0; }
    } catch (...) {}
    return false;
}

// sort <cmp> <threads> <n> a0 … a(n-1)
static void do_sort(std::istringstream& in) {
    std::string cw; int threads; size_t n; SCmp c;
    if (!(in >> cw >> threads >> n) || !parse_cmp(cw, c) || threads < 1) { std::puts("bad-op"); return; }
    // exact-size heap block (no vector slack), so that a sanitizer build sees any access outside [begin,end)
    std::unique_ptr<Item[]> buf(new Item[n]);
    Item* a = buf.get();
    for (size_t i = 0; i < n; ++i) { if (!(in >> a[i].key)) { std::puts("bad-op"); return; } a[i].idx = (long)i; }
    g_cover.assign(n + 1, 0);
    g_calls = 0; g_nonadj = 0;
    std::vector<Item> orig(a, a + n);
    in_arena(threads, [&] { tbb::parallel_sort(a, a + n, c); });
    // monitors: sorted w.r.t. the comparator; permutation of the input (every original index exactly once, keys intact)
    long first_unsorted = -1;
    for (size_t i = 1; i < n; ++i) if (c.less(a[i].key, a[i - 1].key)) { first_unsorted = (long)i; break; }
    bool perm = true;
    std::vector<unsigned char> seen(n, 0);
    for (size_t i = 0; i < n && perm; ++i) {
        long ix = a[i].idx;
        if (ix < 0 || (size_t)ix >= n || seen[ix] || orig[ix].key != a[i].key) perm = false; else seen[ix] = 1;
    }
    bool moved = false;
    for (size_t i = 0; i < n; ++i) if (a[i].idx != (long)i) { moved = true; break; }
    long uncovered = 0, first_uncovered = -1;
    for (size_t k = 1; k < n; ++k) if (!g_cover[k]) { ++uncovered; if (first_uncovered < 0) first_uncovered = (long)k; }
    std::printf("sorted=%d first_unsorted=%ld perm=%d moved=%d uncovered=%ld first_uncovered=%ld calls=%ld nonadj=%ld\n",
                first_unsorted < 0 ? 1 : 0, first_unsorted, perm ? 1 : 0, moved ? 1 : 0, uncovered, first_uncovered,
                g_calls.load(), g_nonadj.load());
}

int main() {
    std::string line;
    while (std::getline(std::cin, line)) {
        std::istringstream in(line);
        std::string op; in >> op;
        if (op.empty()) continue;
        if (op == "reduce") do_reduce(in);
        else if (op == "det") do_det(in);
        else if (op == "scan") do_scan(in);
        else if (op == "sort") do_sort(in);
        else std::puts("bad-op");
        std::fflush(stdout);
    }
    return 0;
}
