// E-PURE white-box harness for C06: the real quick_sort_range (split constructor, median_of_three,
// pseudo_median_of_nine, is_divisible), quick_sort_pretest_body and parallel_quick_sort (serial probe + pretest,
// op `pqs`, on one thread with a comparator that records its calls), one operation per input line.
// Compiled with -fno-access-control against /repo's current headers.
#include <oneapi/tbb/parallel_sort.h>
#include <oneapi/tbb/task_group.h>
#include <oneapi/tbb/task_arena.h>
#include <oneapi/tbb/global_control.h>
#include <cstdio>
#include <iostream>
#include <sstream>
#include <string>
#include <vector>
#include <atomic>
#include <memory>

typedef unsigned long long u64;
static std::atomic<u64> g_cmp_calls{0};

static std::vector<std::pair<u64, u64>>* g_vtrace = nullptr;      // comparator calls (first argument, second argument), when recording
struct Cmp {
    int kind; u64 p;   // 0 lt, 1 gt, 2 div p, 3 mod p, 4 gap p (x + p < y: a strict PARTIAL order, not a strict weak ordering)
    bool operator()(u64 x, u64 y) const {
        g_cmp_calls.fetch_add(1, std::memory_order_relaxed);
        if (g_vtrace) g_vtrace->push_back({x, y});
        switch (kind) {
        case 0: return x < y;
        case 1: return x > y;
        case 2: return x / p < y / p;
        case 3: return x % p < y % p;
        default: return x + p < y;
        }
    }
};

static bool parse_cmp(const std::string& w, Cmp& c) {
    if (w == "lt") { c = {0, 1}; return true; }
    if (w == "gt") { c = {1, 1}; return true; }
    auto num = [](const std::string& s, u64& v) { if (s.empty()) return false; v = 0; for (char ch : s) { if (ch < '0' || ch > '9') return false; v = v * 10 + (ch - '0'); } return true; };
    u64 v;
    if (w.rfind("div", 0) == 0 && num(w.substr(3), v) && v) { c = {2, v}; return true; }
    if (w.rfind("mod", 0) == 0 && num(w.substr(3), v) && v) { c = {3, v}; return true; }
    if (w.rfind("gap", 0) == 0 && num(w.substr(3), v)) { c = {4, v}; return true; }
    return false;
}

// parallel_quick_sort on (key, original index) pairs with a key-projection comparator that records the index pairs
// it is called with, in call order (single thread: the serial probe's comparisons come first, then the pretest's)
struct PItem { u64 key; long idx; };
static std::vector<std::pair<long, long>> g_trace;
static const size_t TRACE_CAP = 24;
static u64 g_nonadj = 0;
struct PCmp {
    Cmp c;
    bool operator()(const PItem& a, const PItem& b) const {
        if (g_trace.size() < TRACE_CAP) g_trace.push_back({a.idx, b.idx});
        long d = a.idx - b.idx;
        if (d != 1 && d != -1) ++g_nonadj;
        return c(a.key, b.key);
    }
};

static bool read_arr(std::istringstream& in, std::vector<u64>& a) {
    size_t n; if (!(in >> n)) return false;
    a.resize(n);
    for (size_t i = 0; i < n; ++i) if (!(in >> a[i])) return false;
    std::string extra; if (in >> extra) return false;
    return true;
}

int main() {
    using It = u64*;
    using QR = tbb::detail::d1::quick_sort_range<It, Cmp>;
    std::string line;
    while (std::getline(std::cin, line)) {
        std::istringstream in(line);
        std::string op; in >> op;
        if (op.empty()) continue;
        if (op == "div") {
            size_t n; if (!(in >> n)) { std::puts("bad-op"); continue; }
            Cmp c{0, 1}; u64 dummy = 0;
            QR r(&dummy, n, c);
            std::printf("%d\n", r.is_divisible() ? 1 : 0);
            continue;
        }
        std::string cw; in >> cw;
        Cmp c; if (!parse_cmp(cw, c)) { std::puts("bad-op"); continue; }
        if (op == "split") {
            std::vector<u64> a; if (!read_arr(in, a)) { std::puts("bad-op"); continue; }
            if (a.empty()) { std::puts("none"); continue; }      // split_range of an empty range reads array[size-1]
            QR r(a.data(), a.size(), c);
            QR r2(r, tbb::split());
            // old range keeps [0, r.size), new range = [r.size+1, r.size+1+r2.size)
            // old range = [0, r.size), new range = [off, off + r2.size); the model says off = r.size + 1 (pivot excluded)
            std::printf("%zu %zu %ld", r.size, r2.size, (long)(r2.begin - a.data()));
            for (u64 x : a) std::printf(" %llu", x);
            if (r.begin != a.data()) std::printf(" BAD-BEGIN");
            std::puts("");
        } else if (op == "splitt") {
            // split with the comparison trace, on an EXACT-SIZE heap block (a sanitizer build sees any access outside [begin,end))
            std::vector<u64> a0; if (!read_arr(in, a0)) { std::puts("bad-op"); continue; }
            if (a0.empty()) { std::puts("none"); continue; }
            std::unique_ptr<u64[]> buf(new u64[a0.size()]);
            u64* a = buf.get();
            for (size_t i = 0; i < a0.size(); ++i) a[i] = a0[i];
            std::vector<std::pair<u64, u64>> tr;
            QR r(a, a0.size(), c);
            g_vtrace = &tr;
            QR r2(r, tbb::split());
            g_vtrace = nullptr;
            std::printf("%zu %zu %ld", r.size, r2.size, (long)(r2.begin - a));
            for (size_t i = 0; i < a0.size(); ++i) std::printf(" %llu", a[i]);
            if (r.begin != a) std::printf(" BAD-BEGIN");
            std::printf(" trace=");
            for (size_t i = 0; i < tr.size(); ++i) std::printf("%s%llu:%llu", i ? "," : "", tr[i].first, tr[i].second);
            std::puts("");
        } else if (op == "med3") {
            size_t l, m, rr; if (!(in >> l >> m >> rr)) { std::puts("bad-op"); continue; }
            std::vector<u64> a; if (!read_arr(in, a) || l >= a.size() || m >= a.size() || rr >= a.size()) { std::puts("bad-op"); continue; }
            QR r(a.data(), a.size(), c);
            std::printf("%zu\n", r.median_of_three(a.data(), l, m, rr));
        } else if (op == "pmed9") {
            std::vector<u64> a; if (!read_arr(in, a) || a.empty()) { std::puts("bad-op"); continue; }
            QR r(a.data(), a.size(), c);
            std::printf("%zu\n", r.pseudo_median_of_nine(a.data(), r));
        } else if (op == "pqs") {
            // pqs <cmp> <n> a0 … : the real parallel_quick_sort (serial probe + parallel pretest + quicksort) on one thread.
            // output: skipped=<1 iff nothing was moved and only adjacent pairs were compared> sorted=<0|1> perm=<0|1> first=<first unsorted index>
            //         trace=<first comparisons as i:j (indices of the first and second argument)>
            std::vector<u64> a; if (!read_arr(in, a) || a.size() < 16) { std::puts("bad-op"); continue; }
            std::vector<PItem> v(a.size());
            for (size_t i = 0; i < a.size(); ++i) v[i] = PItem{a[i], (long)i};
            g_trace.clear(); g_nonadj = 0;
            PCmp pc{c};
            {
                tbb::global_control gc(tbb::global_control::max_allowed_parallelism, 1);
                tbb::task_arena arena(1);
                arena.execute([&] { tbb::detail::d1::parallel_quick_sort(v.data(), v.data() + v.size(), pc); });
            }
            bool moved = false, perm = true;
            long first = -1;
            std::vector<unsigned char> seen(a.size(), 0);
            for (size_t i = 0; i < v.size(); ++i) {
                if (v[i].idx != (long)i) moved = true;
                if (v[i].idx < 0 || (size_t)v[i].idx >= a.size() || seen[v[i].idx] || a[v[i].idx] != v[i].key) perm = false; else seen[v[i].idx] = 1;
                if (i && first < 0 && c(v[i].key, v[i - 1].key)) first = (long)i;
            }
            std::printf("skipped=%d sorted=%d perm=%d first=%ld trace=", (!moved && g_nonadj == 0) ? 1 : 0, first < 0 ? 1 : 0, perm ? 1 : 0, first);
            for (size_t i = 0; i < g_trace.size(); ++i) std::printf("%s%ld:%ld", i ? "," : "", g_trace[i].first, g_trace[i].second);
            std::puts("");
        } else if (op == "pretest") {
            size_t lo, hi; if (!(in >> lo >> hi)) { std::puts("bad-op"); continue; }
            std::vector<u64> a; if (!read_arr(in, a) || !(1 <= lo && lo <= hi && hi <= a.size())) { std::puts("bad-op"); continue; }
            tbb::task_group_context ctx;
            tbb::detail::d1::quick_sort_pretest_body<It, Cmp> body(c, ctx);
            u64 before = g_cmp_calls.load();
            body(tbb::blocked_range<It>(a.data() + lo, a.data() + hi));
            std::printf("%d %llu\n", ctx.is_group_execution_cancelled() ? 1 : 0, g_cmp_calls.load() - before);
        } else {
            std::puts("bad-op");
        }
    }
    return 0;
}
