// E-GEN constant dumper for C06 (compiled against /repo's current headers on every run)
#include <oneapi/tbb/parallel_sort.h>
#include <cstdio>
#include <functional>
int main() {
    using R = tbb::detail::d1::quick_sort_range<int*, std::less<int>>;
    std::printf("{\"sortGrainsize\": %zu}\n", (size_t)R::grainsize);
}
