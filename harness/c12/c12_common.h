// C12 E-SHIM harness helpers: bump arena allocator (addresses are never re-used inside a run, so an address names
// one node for the whole run; deallocation marks the record dead), fault injection into user functors (comparator,
// hasher, key_equal, element constructor, allocator), scenario parsing, schedule modes.
#pragma once
#include "verif_hb.h"
#include <cstdint>
#include <cstdio>
#include <cstring>
#include <functional>
#include <map>
#include <set>
#include <sstream>
#include <string>
#include <type_traits>
#include <vector>

namespace c12 {

// --- fault injection: the k-th call of a user functor inside one container operation throws -----------------
enum { F_CMP = 0, F_HASH, F_EQ, F_CTOR, F_ALLOC, F_N };
static const char* const F_NAMES[F_N] = {"cmp", "hash", "eq", "ctor", "alloc"};
inline int functor_id(const std::string& w) { for (int i = 0; i < F_N; ++i) if (w == F_NAMES[i]) return i; return -1; }
struct Injected { int what; long k; };                  // the injected exception
struct CallCount { long n[F_N] = {0, 0, 0, 0, 0}; };
struct FaultCtl {
    int tid = -1, op = -1, what = -1; long k = 0;       // armed fault: thread, operation index, functor, k-th call within the operation (tid < 0: none)
    bool fired = false;
    std::vector<std::vector<CallCount>> calls;         // [tid][op]: functor calls the operation made (recorded when it ends)
    void arm(int t, int o, int w, long kk) { tid = t; op = o; what = w; k = kk; }
    void disarm() { tid = -1; op = -1; what = -1; k = 0; }
};
inline FaultCtl& fctl() { static FaultCtl f; return f; }
inline thread_local int t_tid = -1;                    // scenario thread of the calling thread (-1: harness code)
inline thread_local int t_op = -1;
inline thread_local bool t_active = false;             // inside a container call of a scenario operation
inline thread_local long t_calls[F_N] = {0, 0, 0, 0, 0};
inline void functor_call(int what) {
    if (!t_active) return;
    long n = ++t_calls[what];
    FaultCtl& f = fctl();
    if (f.tid == t_tid && f.op == t_op && f.what == what && f.k == n) {
        f.fired = true; t_active = false;
        verif::note("x", (uint64_t)what, (uint64_t)n);
        throw Injected{what, n};
    }
}
struct OpScope {           // brackets the container call(s) of one scenario operation
    OpScope(int tid, int op) { t_tid = tid; t_op = op; for (long& c : t_calls) c = 0; t_active = true; }
    ~OpScope() {
        t_active = false;
        FaultCtl& f = fctl();
        if (t_tid >= 0 && (size_t)t_tid < f.calls.size() && t_op >= 0 && (size_t)t_op < f.calls[t_tid].size())
            for (int i = 0; i < F_N; ++i) f.calls[t_tid][t_op].n[i] = t_calls[i];
        t_tid = -1; t_op = -1;
    }
};

// element type whose copy / move construction is a user functor call (the value nodes hold one; 8 bytes like the plain key)
struct Elem {
    uint64_t v;
    explicit Elem(uint64_t x = 0) noexcept : v(x) {}
    Elem(const Elem& o) : v(o.v) { functor_call(F_CTOR); }
    Elem(Elem&& o) : v(o.v) { functor_call(F_CTOR); }
    Elem& operator=(const Elem&) = default;
};

// --- bump arena: addresses are never re-used inside a run; deallocation only marks the record dead ------------
struct AllocRec { size_t off, bytes; int tag; int dead = 0; int tid = -1, op = -1; };     // tag: 1 = list node, 2 = other (segments, tables)
struct Arena {
    static constexpr uint64_t HB_CELL0 = 1000000;
    // a thread reads an element it obtained from the container (find / iteration / the iterator returned by insert)
    void hb_read(const void* p) const { long i = find(p); if (i >= 0) verif::note("gr", HB_CELL0 + (uint64_t)i); }
    static constexpr size_t SIZE = size_t(256) << 20;
    char* base = nullptr; size_t top = 0; std::vector<AllocRec> recs;
    std::vector<std::string> errors;                   // double / unknown deallocations
    std::function<void(size_t)> on_dealloc;            // harness hook, called BEFORE the record is marked dead
    Arena() { base = static_cast<char*>(aligned_alloc(4096, SIZE)); }
    void reset() { top = 0; recs.clear(); errors.clear(); on_dealloc = nullptr; }
    void* alloc(size_t bytes, size_t align, int tag) {
        top = (top + align - 1) / align * align;
        if (top + bytes > SIZE) { fprintf(stderr, "arena exhausted\n"); abort(); }
        void* p = base + top; recs.push_back({top, bytes, tag, 0, t_tid, t_op}); top += bytes;
        memset(p, 0, bytes);
        verif::note("gw", HB_CELL0 + recs.size() - 1);          // happens-before ghost: the allocating thread initialises the block before it publishes it
        return p;
    }
    void dealloc(const void* p) {
        long i = find(p);
        if (i < 0 || (size_t)((const char*)p - base) != recs[i].off) { errors.push_back("deallocation of an address that was never allocated"); return; }
        if (recs[i].dead) { errors.push_back("allocation #" + std::to_string(i) + " deallocated twice"); recs[i].dead++; return; }
        if (on_dealloc) on_dealloc((size_t)i);
        recs[i].dead = 1;
        verif::note("gw", HB_CELL0 + (uint64_t)i);              // every read of the block must happen before its deallocation
    }
    bool contains(const void* p) const { return (const char*)p >= base && (const char*)p < base + top; }
    // index of the allocation record containing p (or -1)
    long find(const void* p) const {
        if (!contains(p)) return -1;
        size_t off = (const char*)p - base;
        size_t lo = 0, hi = recs.size();
        while (lo < hi) { size_t mid = (lo + hi) / 2; if (recs[mid].off <= off) lo = mid + 1; else hi = mid; }
        if (lo == 0) return -1;
        const AllocRec& r = recs[lo - 1];
        return off < r.off + r.bytes ? (long)(lo - 1) : -1;
    }
    bool is_dead(const void* p) const { long i = find(p); return i >= 0 && recs[i].dead; }
};
inline Arena& arena() { static Arena a; return a; }

template <class T> struct node_tag { static constexpr int value = 2; };

template <class T>
struct BumpAlloc {
    using value_type = T;
    using propagate_on_container_move_assignment = std::true_type;
    using is_always_equal = std::true_type;
    BumpAlloc() = default;
    template <class U> BumpAlloc(const BumpAlloc<U>&) noexcept {}
    T* allocate(size_t n) {
        functor_call(F_ALLOC);
        return static_cast<T*>(arena().alloc(n * sizeof(T), alignof(T) < 8 ? 8 : alignof(T), node_tag<T>::value));
    }
    void deallocate(T* p, size_t) noexcept { arena().dealloc(p); }
    template <class U> bool operator==(const BumpAlloc<U>&) const noexcept { return true; }
    template <class U> bool operator!=(const BumpAlloc<U>&) const noexcept { return false; }
};

// --- scenario --------------------------------------------------------------------------------------------
struct OpSpec { std::string name; uint64_t key = 0; uint64_t arg = 0; };
struct Scenario {
    std::string kind;                 // container kind
    uint64_t bc = 8; uint64_t mlf_num = 4, mlf_den = 1;
    bool has_mlf_bits = false; uint32_t mlf_bits = 0;          // `mlfb <bits>`: the initial load factor as a float bit pattern
    std::map<uint64_t, uint64_t> hash;        // key -> hash (default identity)
    std::vector<OpSpec> pre;                  // executed sequentially before the threads start
    std::vector<std::vector<OpSpec>> progs;
    std::vector<int> sched;                   // `sched t t t ...` line: the schedule for `replay -`
    int f_tid = -1, f_op = -1, f_what = -1; long f_k = 0;      // `fault <tid> <op index> <functor> <k>`
};
inline OpSpec parse_op(const std::string& w) {
    OpSpec o; size_t c = w.find(':');
    o.name = w.substr(0, c);
    if (c != std::string::npos) {
        std::string rest = w.substr(c + 1); size_t c2 = rest.find(':');
        o.key = strtoull(rest.substr(0, c2).c_str(), 0, 10);
        if (c2 != std::string::npos) o.arg = strtoull(rest.substr(c2 + 1).c_str(), 0, 10);
    }
    return o;
}
inline Scenario read_scenario(FILE* f) {
    Scenario s; static char line[1 << 22];
    while (fgets(line, sizeof line, f)) {
        std::istringstream is(line); std::string w; is >> w;
        if (w == "kind") is >> s.kind;
        else if (w == "bc") is >> s.bc;
        else if (w == "mlf") is >> s.mlf_num >> s.mlf_den;
        else if (w == "mlfb") { is >> s.mlf_bits; s.has_mlf_bits = true; }
        else if (w == "hash") { uint64_t k, h; while (is >> k >> h) s.hash[k] = h; }
        else if (w == "pre") { while (is >> w) s.pre.push_back(parse_op(w)); }
        else if (w == "sched") { int t; while (is >> t) s.sched.push_back(t); }
        else if (w == "fault") { std::string f; is >> s.f_tid >> s.f_op >> f >> s.f_k; s.f_what = functor_id(f); }
        else if (w == "prog") { std::vector<OpSpec> p; while (is >> w) p.push_back(parse_op(w)); s.progs.push_back(p); }
    }
    return s;
}

// Fairness wrapper for the non-random schedules.  Bounded-preemption DFS and replayed prefixes continue without
// preemption, which turns a busy-wait on ANOTHER thread's progress (not a deadlock: that thread is runnable) into an
// endless run.  After `limit` consecutive steps of one thread while another one is enabled, the wrapper forces a
// switch to the next enabled thread.  Deterministic: it depends only on the sequence of steps.
struct FairSchedule : verif::Schedule {
    verif::Schedule& inner; int limit; int last = -1; int run = 0; long forced = 0; int spinner = -1;
    FairSchedule(verif::Schedule& in, int lim = 400) : inner(in), limit(lim) {}
    void reset() { last = -1; run = 0; forced = 0; spinner = -1; }
    int pick(int cur, const std::vector<int>& en, size_t step) override {
        bool cur_en = false; for (int t : en) if (t == cur) cur_en = true;
        int t;
        if (cur_en && cur == last && run >= limit && en.size() > 1) {
            size_t i = 0; while (i < en.size() && en[i] <= cur) ++i;
            t = en[i < en.size() ? i : 0];
            if (t == cur) t = en[(i + 1) % en.size()];
            forced++; spinner = cur;
        } else t = inner.pick(cur, en, step);
        if (t == last) run++; else { run = 1; last = t; }
        return t;
    }
};

// Guided schedule: a list of segments `t*n` (n picks of thread t), `t!` (thread t until it is no longer enabled: finished),
// `t@m` (thread t until it has completed m operations; the harness bumps ops_done[t]); afterwards lowest enabled thread,
// non-preemptively.  A segment whose thread is not enabled is skipped.  Used to HOLD one thread at a chosen scheduling
// point while others run to completion.  The schedule actually taken is reported like any other (plain `replay` re-runs it).
struct GuideSchedule : verif::Schedule {
    struct Seg { int tid; char mode; long n; long used = 0; };
    std::vector<Seg> segs; size_t seg = 0; const std::vector<long>* ops_done = nullptr;
    bool first_short = false;          // the first `*` segment ended because its thread finished early
    void reset() { seg = 0; first_short = false; for (auto& g : segs) g.used = 0; }
    static std::vector<Seg> parse(const char* a) {
        std::vector<Seg> r; std::stringstream ss(a); std::string tok;
        while (std::getline(ss, tok, ',')) {
            if (tok.empty()) continue;
            size_t p = tok.find_first_of("*!@");
            if (p == std::string::npos) continue;
            Seg g; g.tid = atoi(tok.substr(0, p).c_str()); g.mode = tok[p]; g.n = p + 1 < tok.size() ? atol(tok.substr(p + 1).c_str()) : 0;
            r.push_back(g);
        }
        return r;
    }
    int pick(int cur, const std::vector<int>& en, size_t) override {
        while (seg < segs.size()) {
            Seg& g = segs[seg];
            bool e = false; for (int t : en) if (t == g.tid) e = true;
            if (!e) { if (seg == 0 && g.mode == '*' && g.used < g.n) first_short = true; seg++; continue; }
            if (g.mode == '*') { if (g.used < g.n) { g.used++; return g.tid; } seg++; continue; }
            if (g.mode == '!') return g.tid;
            if (g.mode == '@') { if (ops_done && (*ops_done)[g.tid] < g.n) return g.tid; seg++; continue; }
            seg++;
        }
        for (int t : en) if (t == cur) return t;
        return en[0];
    }
};

inline std::vector<int> parse_sched(const char* a) {
    std::vector<int> r; std::stringstream ss(a); std::string tok;
    while (std::getline(ss, tok, ',')) if (!tok.empty()) r.push_back(atoi(tok.c_str()));
    return r;
}

} // namespace c12
