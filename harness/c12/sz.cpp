// C12 E-PURE: table sizing of the real concurrent_unordered_set (white-box my_bucket_count) and binary32 arithmetic.
// stdin, one answer line per input line:
//   seq <n0> <mlf0 bits> op...   ops: i<k> insert k new keys, r<n> reserve(n), h<n> rehash(n), m<bits> max_load_factor(float)
//        -> my_bucket_count after the constructor (+ max_load_factor(mlf0)) and after every op; `!` marks a rejected load factor
//   mul a b | div a b | lt a b | le a b | eq a b   (operands: float bit patterns)  | muln n b (size_t * float) | of n (float(size_t))
//   ton a (size_type(float), in-range values only)
// Built with -fno-access-control; std::allocator; identity hash (the bucket of a small key is small, so huge bucket counts
// allocate nothing).
#include <oneapi/tbb/concurrent_unordered_set.h>
#include <cstdio>
#include <cstring>
#include <cstdlib>
#include <cstdint>
#include <cerrno>
#include <sstream>
#include <string>
#include <vector>

struct IdHash { size_t operator()(uint64_t k) const { return (size_t)k; } };
using USet = tbb::concurrent_unordered_set<uint64_t, IdHash>;

static float from_bits(uint32_t b) { float f; memcpy(&f, &b, 4); return f; }
static std::string show(float f) {
    if (f != f) return "nan";
    uint32_t b; memcpy(&b, &f, 4);
    if (b >> 31) return "neg";
    return std::to_string(b);
}
static bool parse_u64(const std::string& s, unsigned long long& v) {
    if (s.empty() || s.size() > 20) return false;
    for (char ch : s) if (ch < '0' || ch > '9') return false;
    errno = 0; char* end = nullptr; v = strtoull(s.c_str(), &end, 10);
    return errno == 0 && *end == 0;
}

int main() {
    static char line[1 << 20];
    while (fgets(line, sizeof line, stdin)) {
        std::istringstream is(line); std::vector<std::string> w; std::string t;
        while (is >> t) w.push_back(t);
        unsigned long long a = 0, b = 0;
        if (w.size() >= 3 && w[0] == "seq") {
            bool okp = parse_u64(w[1], a) && parse_u64(w[2], b) && b < (1ull << 32);
            struct O { char k; unsigned long long v; }; std::vector<O> ops;
            for (size_t i = 3; i < w.size() && okp; ++i) {
                unsigned long long v;
                if (w[i].size() < 2 || !strchr("irhm", w[i][0]) || !parse_u64(w[i].substr(1), v) || (w[i][0] == 'm' && v >= (1ull << 32))) okp = false;
                else ops.push_back({w[i][0], v});
            }
            if (!okp) { printf("bad-op\n"); continue; }
            USet* c = new USet((size_t)a);
            try { c->max_load_factor(from_bits((uint32_t)b)); } catch (...) {}
            std::string out = std::to_string(c->my_bucket_count.load());
            uint64_t next_key = 1;
            for (auto& o : ops) {
                bool rejected = false;
                if (o.k == 'i') for (unsigned long long i = 0; i < o.v; ++i) c->insert(next_key++);
                else if (o.k == 'r') c->reserve((size_t)o.v);
                else if (o.k == 'h') c->rehash((size_t)o.v);
                else { try { c->max_load_factor(from_bits((uint32_t)o.v)); } catch (...) { rejected = true; } }
                out += " " + std::to_string(c->my_bucket_count.load()) + (rejected ? "!" : "");
            }
            printf("%s\n", out.c_str());
            if (c->my_bucket_count.load() != 0) delete c;      // (a wrapped count of 0 would divide by zero in the destructor's helpers)
            continue;
        }
        if (w.size() == 3 && parse_u64(w[1], a) && parse_u64(w[2], b) && b < (1ull << 31)) {
            volatile float y = from_bits((uint32_t)b);
            if (w[0] == "muln") { volatile size_t n = (size_t)a; printf("%s\n", show(n * y).c_str()); continue; }
            if (a >= (1ull << 31)) { printf("bad-op\n"); continue; }
            volatile float x = from_bits((uint32_t)a);
            if (w[0] == "mul") printf("%s\n", show(x * y).c_str());
            else if (w[0] == "div") printf("%s\n", show(x / y).c_str());
            else if (w[0] == "lt") printf("%d\n", x < y ? 1 : 0);
            else if (w[0] == "le") printf("%d\n", x <= y ? 1 : 0);
            else if (w[0] == "eq") printf("%d\n", x == y ? 1 : 0);
            else printf("bad-op\n");
            continue;
        }
        if (w.size() == 2 && w[0] == "of" && parse_u64(w[1], a)) { volatile size_t n = (size_t)a; printf("%s\n", show(float(n)).c_str()); continue; }
        if (w.size() == 2 && w[0] == "ton" && parse_u64(w[1], a) && a < (1ull << 31)) {
            volatile float x = from_bits((uint32_t)a); printf("%llu\n", (unsigned long long)(size_t)x); continue;
        }
        printf("bad-op\n");
    }
    return 0;
}
