// C12 E-GEN: constants of the unordered containers and the skip list, printed as JSON.  Built with -fno-access-control.
#include <oneapi/tbb/concurrent_unordered_set.h>
#include <oneapi/tbb/concurrent_set.h>
#include <cstdio>
#include <cstring>
int main() {
    using U = tbb::concurrent_unordered_set<int>;
    using S = tbb::concurrent_set<int>;
    U u;
    float mlf0 = u.max_load_factor(); unsigned mlf_bits; memcpy(&mlf_bits, &mlf0, 4);
    printf("{\"sokeyBits\": %zu, \"initialBucketCount\": %zu, \"initialMaxLoadFactorMilli\": %ld, \"pointersPerEmbeddedTable\": %zu, "
           "\"defaultBucketCount\": %zu, \"defaultMaxLoadFactorMilli\": %ld, \"skipMaxLevel\": %zu, \"roundUp5\": %zu, \"roundUp8\": %zu, "
           "\"initialMlfBits\": %u}\n",
           sizeof(U::sokey_type) * 8, (size_t)U::initial_bucket_count, (long)(U::initial_max_load_factor * 1000), (size_t)U::pointers_per_embedded_table,
           u.unsafe_bucket_count(), (long)(u.max_load_factor() * 1000), (size_t)S::max_level,
           (size_t)U::round_up_to_power_of_two(5), (size_t)U::round_up_to_power_of_two(8), mlf_bits);
    return 0;
}
