// C12 E-SHIM harness: the concurrent skip list behind concurrent_{set,multiset,map,multimap}, with a scripted
// level generator (the height of every inserted node is part of the scenario).
// usage: sl <rand seed nruns | dfs bound maxruns | replay t,t,t,...>     (scenario on stdin)
//   kind oset|omset|omap|ommap / pre ins:k:h ... / prog ins:k:h emp:k:h find:k has:k cnt:k lb:k trav
// Output format as uo.cpp (variables: n<id>.next<level>, headptr, maxh, size).
#include "c12_common.h"
#include <oneapi/tbb/concurrent_set.h>
#include <oneapi/tbb/concurrent_map.h>

using namespace c12;
static Scenario g_sc;
static FairSchedule* g_fair = nullptr;
static long g_obs_runs = 0;
static thread_local size_t t_height = 1;

struct ScriptedLevels {
    static constexpr std::size_t max_level = 32;
    std::size_t operator()() { return t_height; }
};
using Less = std::less<uint64_t>;
using PairT = std::pair<const uint64_t, uint64_t>;
namespace d2 = tbb::detail::d2;
using OSet = d2::concurrent_skip_list<d2::set_traits<uint64_t, Less, ScriptedLevels, BumpAlloc<uint64_t>, false>>;
using OMSet = d2::concurrent_skip_list<d2::set_traits<uint64_t, Less, ScriptedLevels, BumpAlloc<uint64_t>, true>>;
using OMap = d2::concurrent_skip_list<d2::map_traits<uint64_t, uint64_t, Less, ScriptedLevels, BumpAlloc<PairT>, false>>;
using OMMap = d2::concurrent_skip_list<d2::map_traits<uint64_t, uint64_t, Less, ScriptedLevels, BumpAlloc<PairT>, true>>;

template <class C> struct Tr;
template <> struct Tr<OSet> { static constexpr bool multi = false; static uint64_t val(uint64_t k, uint64_t) { return k; } static uint64_t key(uint64_t v) { return v; } };
template <> struct Tr<OMSet> { static constexpr bool multi = true; static uint64_t val(uint64_t k, uint64_t) { return k; } static uint64_t key(uint64_t v) { return v; } };
template <> struct Tr<OMap> { static constexpr bool multi = false; static PairT val(uint64_t k, uint64_t tag) { return PairT(k, tag); } static uint64_t key(const PairT& v) { return v.first; } };
template <> struct Tr<OMMap> { static constexpr bool multi = true; static PairT val(uint64_t k, uint64_t tag) { return PairT(k, tag); } static uint64_t key(const PairT& v) { return v.first; } };

struct OpRes { std::string name; uint64_t key; std::vector<uint64_t> vals; };

template <class C>
static bool run_once(verif::Schedule& sch, int run_idx, bool print) {
    using T = Tr<C>;
    using node_ptr = typename C::node_ptr;
    arena().reset();
    C* cp = new (arena().alloc(sizeof(C), 64, 2)) C();                     // never destroyed
    C& c = *cp;
    size_t arena_mark = arena().recs.size();
    size_t T_n = g_sc.progs.size();
    size_t total_ins = g_sc.pre.size();
    for (auto& p : g_sc.progs) for (auto& o : p) if (o.name == "ins" || o.name == "emp") total_ins++;
    const size_t walk_bound = 4 * total_ins + 4096;

    std::string err;
    auto fail = [&](const std::string& m) { if (err.empty()) err = m; };
    // sequential phases also run under the scheduler (one thread, step limit): a corrupted list must not hang the harness
    auto guarded = [&](const std::function<void()>& f, const char* what) {
        verif::ReplaySchedule rs;
        std::vector<std::function<void()>> b{f};
        verif::Result g = verif::run(b, rs, 3000000);
        if (g.deadlock) {
            printf("run %d\nmon VIOLATION %s does not terminate (corrupted list)%s%s\nsched\nend\n", run_idx, what, err.empty() ? "" : "; earlier: ", err.c_str());
            fflush(stdout); _exit(3);
        }
    };
    std::map<uint64_t, long> pre_cnt, started, completed, wins;
    long ins_started = 0, ins_completed = 0; std::vector<std::string> observations;
    std::set<const void*> elems_done, elems_all;
    guarded([&] {
        for (auto& o : g_sc.pre) {
            t_height = o.arg ? o.arg : 1;
            auto r = c.insert(T::val(o.key, 900000 + pre_cnt.size()));
            if (r.second) { pre_cnt[o.key]++; elems_done.insert(&*r.first); elems_all.insert(&*r.first); }
            else if (T::multi) fail("pre-insert into a multi container failed");
        }
    }, "sequential pre-insert phase");
    std::vector<std::vector<OpRes>> res(T_n);

    auto traverse = [&](std::vector<uint64_t>& keys, std::vector<const void*>& addrs, const char* who) {
        size_t n = 0; bool first = true; uint64_t last = 0;
        for (auto it = c.begin(); it != c.end(); ++it) {
            if (++n > walk_bound) { fail(std::string(who) + ": traversal does not terminate (cycle in the list)"); break; }
            uint64_t k = T::key(*it);
            if (!first && (T::multi ? k < last : k <= last)) fail(std::string(who) + ": iteration not in comparator order (" + std::to_string(last) + " then " + std::to_string(k) + ")");
            first = false; last = k;
            keys.push_back(k); addrs.push_back(&*it);
        }
    };
    auto check_traversal = [&](const std::vector<uint64_t>& keys, const std::vector<const void*>& addrs,
                               const std::set<const void*>& before, const char* who) {
        std::set<const void*> seen;
        for (size_t i = 0; i < addrs.size(); ++i) {
            if (!seen.insert(addrs[i]).second) fail(std::string(who) + ": element seen twice, key " + std::to_string(keys[i]));
            if (!started.count(keys[i]) && !pre_cnt.count(keys[i])) fail(std::string(who) + ": saw key " + std::to_string(keys[i]) + " that nobody inserts");
        }
        for (const void* a : before) if (!seen.count(a)) { fail(std::string(who) + ": missed an element that was present before the traversal began"); break; }
    };

    verif::clear_names();
    std::vector<std::function<void()>> bodies;
    for (size_t t = 0; t < T_n; ++t) bodies.push_back([&, t] {
        for (size_t i = 0; i < g_sc.progs[t].size(); ++i) {
            const OpSpec& o = g_sc.progs[t][i];
            OpRes r{o.name, o.key, {}};
            verif::note("b", i);
            if (o.name == "ins" || o.name == "emp") {
                started[o.key]++; ins_started++;
                t_height = o.arg ? o.arg : 1;
                bool ok; const void* addr;
                if (o.name == "ins") { auto pr = c.insert(T::val(o.key, t * 1000 + i)); ok = pr.second; addr = &*pr.first; if (T::key(*pr.first) != o.key) fail("insert returned an iterator to a different key"); }
                else { auto pr = c.emplace(T::val(o.key, t * 1000 + i)); ok = pr.second; addr = &*pr.first; if (T::key(*pr.first) != o.key) fail("emplace returned an iterator to a different key"); }
                completed[o.key]++; ins_completed++;
                if (ok) { wins[o.key]++; if (!elems_all.insert(addr).second) fail("two successful inserts returned the same element"); elems_done.insert(addr); }
                else if (T::multi) fail("insert into a multi container reported failure");
                r.vals.push_back(ok);
            } else if (o.name == "find" || o.name == "has") {
                bool must = completed.count(o.key) || pre_cnt.count(o.key);
                bool f;
                if (o.name == "find") { auto it = c.find(o.key); f = it != c.end(); if (f && T::key(*it) != o.key) fail("find returned a different key"); }
                else f = c.contains(o.key);
                bool may = started.count(o.key) || pre_cnt.count(o.key);
                if (must && !f) fail("find-after-insert: key " + std::to_string(o.key) + " not found although an insert of it had returned");
                if (f && !may) fail("found key " + std::to_string(o.key) + " that nobody inserts");
                r.vals.push_back(f);
            } else if (o.name == "lb") {
                bool must = completed.count(o.key) || pre_cnt.count(o.key);
                auto it = c.lower_bound(o.key);
                if (it == c.end()) { if (must) fail("lower_bound(" + std::to_string(o.key) + ") = end although the key is present"); r.vals.push_back(0); }
                else {
                    uint64_t k = T::key(*it);
                    if (k < o.key) fail("lower_bound returned a smaller key");
                    if (must && k != o.key) fail("lower_bound(" + std::to_string(o.key) + ") skipped the key (returned " + std::to_string(k) + ")");
                    r.vals.push_back(1); r.vals.push_back(k);
                }
            } else if (o.name == "cnt") {
                long lo = pre_cnt.count(o.key) ? pre_cnt[o.key] : 0; if (T::multi) lo += wins.count(o.key) ? wins[o.key] : 0; else if (completed.count(o.key)) lo = 1;
                long done_before = ins_completed;
                size_t n = c.count(o.key);
                long hi = (pre_cnt.count(o.key) ? pre_cnt[o.key] : 0) + (started.count(o.key) ? started[o.key] : 0); if (!T::multi && hi > 1) hi = 1;
                // multi containers: count() = std::distance over equal_range(); elements of OTHER keys linked between the two
                // iterators while it runs are counted too (reported as an observation, bounded by the inserts in flight)
                long inflight = T::multi ? (ins_started - done_before) : 0;
                if ((long)n < lo) fail("count(" + std::to_string(o.key) + ") = " + std::to_string(n) + " below the number of completed inserts " + std::to_string(lo));
                if ((long)n > hi + inflight) fail("count(" + std::to_string(o.key) + ") = " + std::to_string(n) + " above the number of started inserts " + std::to_string(hi) + " (+" + std::to_string(inflight) + " in flight)");
                else if ((long)n > hi) observations.push_back("count(" + std::to_string(o.key) + ") = " + std::to_string(n) + " although only " + std::to_string(hi) + " such elements were ever inserted (concurrent inserts of other keys inside equal_range)");
                r.vals.push_back(n);
            } else if (o.name == "trav") {
                std::set<const void*> before = elems_done;
                std::vector<const void*> addrs;
                traverse(r.vals, addrs, "concurrent traversal");
                check_traversal(r.vals, addrs, before, "concurrent traversal");
            }
            verif::note("e", i);
            res[t].push_back(r);
        }
    });
    verif::Result rr = verif::run(bodies, sch, 100000);
    if (g_fair && g_fair->forced) observations.push_back("busy-wait: thread " + std::to_string(g_fair->spinner) + " ran " + std::to_string(g_fair->limit) +
        " consecutive steps without finishing (it spins on another thread's progress without pause/yield); " + std::to_string(g_fair->forced) + " forced switches");

    std::vector<uint64_t> fin; std::vector<const void*> fin_addrs;
    node_ptr head = c.my_head_ptr.a.load();
    size_t maxh = c.my_max_height.a.load();
    if (!rr.deadlock) guarded([&] {
        traverse(fin, fin_addrs, "final traversal");
        check_traversal(fin, fin_addrs, elems_all, "final traversal");
        std::map<uint64_t, long> have, want = pre_cnt;
        for (auto k : fin) have[k]++;
        for (auto& kv : wins) if (kv.second) want[kv.first] += kv.second;
        if (have != want) fail("final contents differ from the union of successful inserts");
        if (c.size() != fin.size()) fail("size() = " + std::to_string(c.size()) + " but the list holds " + std::to_string(fin.size()));
        for (auto& kv : started) {
            long exp = T::multi ? kv.second : (pre_cnt.count(kv.first) ? 0 : 1);
            long w = wins.count(kv.first) ? wins[kv.first] : 0;
            if (w != exp) fail("key " + std::to_string(kv.first) + ": " + std::to_string(w) + " inserts reported success, expected " + std::to_string(exp));
        }
        // level structure: every level is a sub-sequence of the level below (white box)
        if (head && err.empty()) {
            std::vector<node_ptr> below;
            size_t n = 0;
            for (node_ptr x = head->get_atomic_next(0).a.load(); x && n < walk_bound; x = x->get_atomic_next(0).a.load(), ++n) below.push_back(x);
            for (size_t l = 1; l < C::max_level && err.empty(); ++l) {
                std::vector<node_ptr> lev; n = 0;
                for (node_ptr x = head->get_atomic_next(l).a.load(); x && n < walk_bound; x = x->get_atomic_next(l).a.load(), ++n) {
                    if (x->height() <= l) { fail("level " + std::to_string(l) + " links a node of height " + std::to_string(x->height())); break; }
                    lev.push_back(x);
                }
                if (l >= maxh && !lev.empty()) fail("level " + std::to_string(l) + " is populated above my_max_height");
                size_t j = 0;
                for (node_ptr x : lev) { while (j < below.size() && below[j] != x) ++j; if (j == below.size()) { fail("level " + std::to_string(l) + " is not a sub-sequence of level " + std::to_string(l - 1)); break; } ++j; }
                // every node tall enough must be on the level
                size_t cnt = 0; for (node_ptr x : below) if (x->height() > l) ++cnt;
                if (err.empty() && cnt != lev.size()) fail("level " + std::to_string(l) + " misses nodes of sufficient height");
                below.swap(lev);
                if (below.empty()) break;
            }
        }
        // lookups from the top level land on the level-0 lower bound
        for (size_t i = 0; i < fin.size() && err.empty(); ++i) {
            auto it = c.lower_bound(fin[i]);
            size_t first = 0; while (first < fin.size() && fin[first] != fin[i]) ++first;
            if (it == c.end() || (const void*)&*it != fin_addrs[first]) fail("lower_bound(" + std::to_string(fin[i]) + ") is not the first element with that key");
            if (c.find(fin[i]) == c.end()) fail("element " + std::to_string(fin[i]) + " not found at quiescence");
            if (c.count(fin[i]) != (size_t)have[fin[i]]) fail("count(" + std::to_string(fin[i]) + ") wrong at quiescence");
        }
        }, "quiescent lookups/traversal");
    if (!observations.empty()) g_obs_runs++;
    bool ok = err.empty() && !rr.deadlock;
    if (print || !ok) {
        std::map<const void*, std::string> var; std::map<uint64_t, std::string> val;
        std::vector<std::string> node_lines;
        long nid = 0;
        for (size_t ri = arena_mark; ri < arena().recs.size(); ++ri) {
            auto& rec = arena().recs[ri];
            node_ptr np = reinterpret_cast<node_ptr>(arena().base + rec.off);
            std::string name;
            if (np == head) name = "n0";
            else name = "n" + std::to_string(++nid);
            val[(uint64_t)np] = name;
            size_t h = (rec.bytes - sizeof(*np)) / sizeof(void*);
            for (size_t l = 0; l < h; ++l) var[&np->get_atomic_next(l)] = name + ".next" + std::to_string(l);
            if (np != head) node_lines.push_back("node " + name.substr(1) + " " + std::to_string(T::key(np->value())) + " " + std::to_string(h));
        }
        var[&c.my_head_ptr] = "headptr"; var[&c.my_max_height] = "maxh"; var[&c.my_size] = "size";
        printf("run %d\n", run_idx);
        for (auto& l : node_lines) printf("%s\n", l.c_str());
        auto vname = [&](const std::string& v, uint64_t x) -> std::string {
            if (v[0] == 'n' || v == "headptr") { if (!x) return "nil"; auto it = val.find(x); return it == val.end() ? "?" + std::to_string(x) : it->second; }
            return std::to_string(x);
        };
        for (auto& e : rr.log) {
            if (e.kind == verif::K_NOTE) { printf("o %d %s %llu\n", e.tid, e.tag, (unsigned long long)e.a); continue; }
            if (e.kind > verif::K_FXOR) continue;
            auto it = var.find(e.addr);
            std::string v = it == var.end() ? "anon" : it->second;
            printf("e %d %s %s %s %s %d %s\n", e.tid, verif::kind_name(e.kind), v.c_str(), vname(v, e.a).c_str(), vname(v, e.b).c_str(), e.ok, verif::order_name(e.order));
        }
        for (size_t t = 0; t < T_n; ++t) for (size_t i = 0; i < res[t].size(); ++i) {
            printf("res %zu %zu %s %llu", t, i, res[t][i].name.c_str(), (unsigned long long)res[t][i].key);
            for (auto v : res[t][i].vals) printf(" %llu", (unsigned long long)v);
            printf("\n");
        }
        printf("fin"); for (auto k : fin) printf(" %llu", (unsigned long long)k); printf("\n");
        printf("maxhfin %zu\n", maxh);
        for (auto& ob : observations) printf("obs %s\n", ob.c_str());
        printf("mon %s%s\n", err.empty() ? (rr.deadlock ? "DEADLOCK" : "ok") : "VIOLATION ", err.c_str());
        printf("sched"); for (int s : rr.schedule) printf(" %d", s); printf("\nend\n");
        fflush(stdout);
    }
    if (rr.deadlock) { fflush(stdout); _exit(3); }
    return ok;
}

template <class C> static int drive(int argc, char** argv) {
    std::string mode = argv[1];
    long maxruns = argc > 3 ? atol(argv[3]) : 1;
    long runs = 0, bad = 0;
    if (mode == "rand") {
        unsigned long long seed = strtoull(argv[2], 0, 10);
        for (long i = 0; i < maxruns; ++i) { verif::RandomSchedule s(seed * 7919 + i, 32 + (int)(i % 4) * 56); if (!run_once<C>(s, (int)i, true)) bad++; runs++; }
    } else if (mode == "dfs") {
        verif::DfsSchedule d(atoi(argv[2]));
        FairSchedule f(d);
        do { d.pos = 0; d.preempts = 0; f.reset(); g_fair = &f; if (!run_once<C>(f, (int)runs, false)) { bad++; break; } runs++; } while (runs < maxruns && d.next());
    } else if (mode == "replay") {
        verif::ReplaySchedule s; s.tids = strcmp(argv[2], "-") ? parse_sched(argv[2]) : g_sc.sched;
        FairSchedule f(s); g_fair = &f;
        if (!run_once<C>(f, 0, true)) bad++; runs++;
    }
    printf("summary runs=%ld bad=%ld obs=%ld\n", runs, bad, g_obs_runs);
    return bad ? 1 : 0;
}

int main(int argc, char** argv) {
    if (argc < 3) return 2;
    g_sc = read_scenario(stdin);
    if (g_sc.kind == "oset") return drive<OSet>(argc, argv);
    if (g_sc.kind == "omset") return drive<OMSet>(argc, argv);
    if (g_sc.kind == "omap") return drive<OMap>(argc, argv);
    if (g_sc.kind == "ommap") return drive<OMMap>(argc, argv);
    fprintf(stderr, "unknown kind\n");
    return 2;
}
