// C12 E-SHIM harness: the concurrent skip list behind concurrent_{set,multiset,map,multimap}, with a scripted
// level generator (the height of every inserted node is part of the scenario), user functors that can throw at their
// k-th call inside one operation (comparator, element constructor, allocator) and an allocator that records deallocations.
// usage: sl <rand seed nruns | dfs bound maxruns | replay t,t,t,...|- | guide segs | sweep H maxruns |
//            frand seed nruns cap printcap | fsweep H maxruns cap printcap>     (scenario on stdin)
//   kind oset|omset|omap|ommap / pre ins:k:h ... / prog ins:k:h emp:k:h find:k has:k cnt:k lb:k trav / fault tid op functor k
//   frand : for every random schedule first a clean run, then one run per (thread, operation, functor, k <= number of calls the
//           operation made in the clean run) with that call throwing, under the same schedule seed (at most `cap` per schedule)
//   fsweep: as `sweep` (hold thread H after j scheduling points while every ordered selection of the others completes, then H);
//           for every such guided schedule a clean run and then every fault position of thread H
// Output format as uo.cpp (variables: n<id>.next<level>, headptr, maxh, size); additionally per run
//   x tid functor k  (in the access log: the call that threw) / calls tid op functor=n ... / fault tid op functor k fired /
//   dead <node ids deallocated during the run> / res ... 2 = the operation left by the injected exception
#include "c12_common.h"
#include <functional>
#include <oneapi/tbb/concurrent_set.h>
#include <oneapi/tbb/concurrent_map.h>

using namespace c12;
static Scenario g_sc;
static FairSchedule* g_fair = nullptr;
static long g_obs_runs = 0;
static std::vector<long> g_ops_done;
static int g_focus = -1;
static thread_local size_t t_height = 1;

struct ScriptedLevels {
    static constexpr std::size_t max_level = 32;
    std::size_t operator()() { return t_height; }
};
struct Less {
    bool operator()(const Elem& a, const Elem& b) const { functor_call(F_CMP); return a.v < b.v; }
};
using PairT = std::pair<const Elem, uint64_t>;
namespace d2 = tbb::detail::d2;
using OSet = d2::concurrent_skip_list<d2::set_traits<Elem, Less, ScriptedLevels, BumpAlloc<Elem>, false>>;
using OMSet = d2::concurrent_skip_list<d2::set_traits<Elem, Less, ScriptedLevels, BumpAlloc<Elem>, true>>;
using OMap = d2::concurrent_skip_list<d2::map_traits<Elem, uint64_t, Less, ScriptedLevels, BumpAlloc<PairT>, false>>;
using OMMap = d2::concurrent_skip_list<d2::map_traits<Elem, uint64_t, Less, ScriptedLevels, BumpAlloc<PairT>, true>>;

template <class C> struct Tr;
template <> struct Tr<OSet> { static constexpr bool multi = false; static Elem val(uint64_t k, uint64_t) { return Elem(k); } static uint64_t key(const Elem& v) { return v.v; } };
template <> struct Tr<OMSet> { static constexpr bool multi = true; static Elem val(uint64_t k, uint64_t) { return Elem(k); } static uint64_t key(const Elem& v) { return v.v; } };
template <> struct Tr<OMap> { static constexpr bool multi = false; static PairT val(uint64_t k, uint64_t tag) { return PairT(Elem(k), tag); } static uint64_t key(const PairT& v) { return v.first.v; } };
template <> struct Tr<OMMap> { static constexpr bool multi = true; static PairT val(uint64_t k, uint64_t tag) { return PairT(Elem(k), tag); } static uint64_t key(const PairT& v) { return v.first.v; } };

struct OpRes { std::string name; uint64_t key; std::vector<uint64_t> vals; };
static bool g_last_fired = false;
static long g_fired_by[F_N] = {0, 0, 0, 0, 0};
static long g_postlink = 0, g_leaks = 0;      // fault runs in which an insert threw after / before its node was linked (node leaked)

// print: 0 = only when a monitor fires, 1 = always, 2 = when the focus thread had a failed CAS, 3 = when the armed fault fired
template <class C>
static bool run_once(verif::Schedule& sch, int run_idx, int print) {
    using T = Tr<C>;
    using node_ptr = typename C::node_ptr;
    arena().reset();
    FaultCtl& fc = fctl();
    fc.fired = false;
    fc.calls.assign(g_sc.progs.size(), {});
    for (size_t t = 0; t < g_sc.progs.size(); ++t) fc.calls[t].assign(g_sc.progs[t].size(), CallCount());
    C* cp = new (arena().alloc(sizeof(C), 64, 2)) C();                     // destroyed explicitly at the end of a healthy run
    C& c = *cp;
    size_t arena_mark = arena().recs.size();
    size_t T_n = g_sc.progs.size();
    size_t total_ins = g_sc.pre.size();
    for (auto& p : g_sc.progs) for (auto& o : p) if (o.name == "ins" || o.name == "emp") total_ins++;
    const size_t walk_bound = 4 * total_ins + 4096;

    std::string err;
    auto fail = [&](const std::string& m) { if (err.empty()) err = m; };
    // sequential phases also run under the scheduler (one thread, step limit): a corrupted list must not hang the harness
    auto guarded = [&](const std::function<void()>& f, const char* what) {
        verif::ReplaySchedule rs;
        std::vector<std::function<void()>> b{f};
        verif::Result g = verif::run(b, rs, 3000000);
        if (g.deadlock) {
            printf("run %d\nmon VIOLATION %s does not terminate (corrupted list)%s%s\nsched\nend\n", run_idx, what, err.empty() ? "" : "; earlier: ", err.c_str());
            fflush(stdout); _exit(3);
        }
    };
    auto raw_head = [&]() -> node_ptr { return c.my_head_ptr.a.load(); };
    // white box, no scheduling points: the lowest level on which node `np` is reachable from the head (-1: none)
    auto reachable_level = [&](const void* np) -> long {
        node_ptr head = raw_head();
        if (!head) return -1;
        for (size_t l = 0; l < C::max_level; ++l) {
            size_t n = 0; bool any = false;
            for (node_ptr x = head->get_atomic_next(l).a.load(); x && n < walk_bound; x = x->get_atomic_next(l).a.load(), ++n) { any = true; if ((const void*)x == np) return (long)l; }
            if (!any) break;
        }
        return -1;
    };
    // an allocation that is deallocated must not be reachable from the head any more (checked at the moment of the deallocation)
    arena().on_dealloc = [&](size_t ri) {
        if (ri < arena_mark) return;
        const void* np = arena().base + arena().recs[ri].off;
        if (np == (const void*)raw_head()) { fail("the head node is deallocated while the container is in use"); return; }
        long l = reachable_level(np);
        if (l >= 0) fail("node deallocated while it is still reachable from the head (level " + std::to_string(l) + "): a dead node stays linked");
    };
    std::map<uint64_t, long> pre_cnt, started, completed, wins, thrown_linked;
    long ins_started = 0, ins_completed = 0, n_thrown_linked = 0; std::vector<std::string> observations;
    std::set<const void*> elems_done, elems_all;
    std::set<size_t> leak_ok;                 // allocation records of nodes whose insert threw before the node was linked
    std::set<const void*> partial_nodes;      // nodes whose insert threw after the level-0 link (upper levels may be incomplete)
    guarded([&] {
        for (auto& o : g_sc.pre) {
            t_height = o.arg ? o.arg : 1;
            auto r = c.insert(T::val(o.key, 900000 + pre_cnt.size()));
            if (r.second) { pre_cnt[o.key]++; elems_done.insert(&*r.first); elems_all.insert(&*r.first); }
            else if (T::multi) fail("pre-insert into a multi container failed");
        }
    }, "sequential pre-insert phase");
    std::vector<std::vector<OpRes>> res(T_n);
    g_ops_done.assign(T_n, 0);

    auto traverse = [&](std::vector<uint64_t>& keys, std::vector<const void*>& addrs, const char* who) {
        size_t n = 0; bool first = true; uint64_t last = 0;
        for (auto it = c.begin(); it != c.end(); ++it) {
            if (++n > walk_bound) { fail(std::string(who) + ": traversal does not terminate (cycle in the list)"); break; }
            if (arena().is_dead(&*it)) fail(std::string(who) + ": iteration walks through a deallocated node (key bytes read as " + std::to_string(T::key(*it)) + ")");
            uint64_t k = T::key(*it);
            if (!first && (T::multi ? k < last : k <= last)) fail(std::string(who) + ": iteration not in comparator order (" + std::to_string(last) + " then " + std::to_string(k) + ")");
            first = false; last = k;
            keys.push_back(k); addrs.push_back(&*it);
        }
    };
    auto check_traversal = [&](const std::vector<uint64_t>& keys, const std::vector<const void*>& addrs,
                               const std::set<const void*>& before, const char* who) {
        std::set<const void*> seen;
        for (size_t i = 0; i < addrs.size(); ++i) {
            if (!seen.insert(addrs[i]).second) fail(std::string(who) + ": element seen twice, key " + std::to_string(keys[i]));
            if (!started.count(keys[i]) && !pre_cnt.count(keys[i])) fail(std::string(who) + ": saw key " + std::to_string(keys[i]) + " that nobody inserts");
        }
        for (const void* a : before) if (!seen.count(a)) { fail(std::string(who) + ": missed an element that was present before the traversal began"); break; }
    };
    // the value node an insert operation allocated (create_value_node allocates it before anything else), or -1
    auto own_node_rec = [&](size_t t, size_t i) -> long {
        for (size_t ri = arena_mark; ri < arena().recs.size(); ++ri) if (arena().recs[ri].tid == (int)t && arena().recs[ri].op == (int)i) return (long)ri;
        return -1;
    };

    verif::clear_names();
    std::vector<std::function<void()>> bodies;
    for (size_t t = 0; t < T_n; ++t) bodies.push_back([&, t] {
        for (size_t i = 0; i < g_sc.progs[t].size(); ++i) {
            const OpSpec& o = g_sc.progs[t][i];
            OpRes r{o.name, o.key, {}};
            verif::note("b", i);
            const Elem ek(o.key);
            bool is_ins = o.name == "ins" || o.name == "emp";
            try {
            if (is_ins) {
                started[o.key]++; ins_started++;
                t_height = o.arg ? o.arg : 1;
                bool ok; const void* addr;
                auto v = T::val(o.key, t * 1000 + i);
                if (o.name == "ins") { OpScope sc(t, i); auto pr = c.insert(std::move(v)); t_active = false; ok = pr.second; addr = &*pr.first; arena().hb_read(addr); if (T::key(*pr.first) != o.key) fail("insert returned an iterator to a different key"); }
                else { OpScope sc(t, i); auto pr = c.emplace(std::move(v)); t_active = false; ok = pr.second; addr = &*pr.first; arena().hb_read(addr); if (T::key(*pr.first) != o.key) fail("emplace returned an iterator to a different key"); }
                completed[o.key]++; ins_completed++;
                if (ok) { wins[o.key]++; if (!elems_all.insert(addr).second) fail("two successful inserts returned the same element"); elems_done.insert(addr); }
                else if (T::multi) fail("insert into a multi container reported failure");
                if (arena().is_dead(addr)) fail("insert returned an iterator to a deallocated node");
                r.vals.push_back(ok);
            } else if (o.name == "find" || o.name == "has") {
                bool must = completed.count(o.key) || pre_cnt.count(o.key) || thrown_linked.count(o.key);
                bool f;
                if (o.name == "find") { OpScope sc(t, i); auto it = c.find(ek); t_active = false; f = it != c.end(); if (f) arena().hb_read(&*it); if (f && T::key(*it) != o.key) fail("find returned a different key"); if (f && arena().is_dead(&*it)) fail("find returned a deallocated node"); }
                else { OpScope sc(t, i); f = c.contains(ek); }
                bool may = started.count(o.key) || pre_cnt.count(o.key);
                if (must && !f) fail("find-after-insert: key " + std::to_string(o.key) + " not found although an insert of it had returned");
                if (f && !may) fail("found key " + std::to_string(o.key) + " that nobody inserts");
                r.vals.push_back(f);
            } else if (o.name == "lb") {
                bool must = completed.count(o.key) || pre_cnt.count(o.key) || thrown_linked.count(o.key);
                OpScope sc(t, i);
                auto it = c.lower_bound(ek);
                t_active = false;
                if (it == c.end()) { if (must) fail("lower_bound(" + std::to_string(o.key) + ") = end although the key is present"); r.vals.push_back(0); }
                else {
                    uint64_t k = T::key(*it);
                    if (k < o.key) fail("lower_bound returned a smaller key");
                    if (must && k != o.key) fail("lower_bound(" + std::to_string(o.key) + ") skipped the key (returned " + std::to_string(k) + ")");
                    r.vals.push_back(1); r.vals.push_back(k);
                }
            } else if (o.name == "cnt") {
                long tl = thrown_linked.count(o.key) ? thrown_linked[o.key] : 0;
                long lo = (pre_cnt.count(o.key) ? pre_cnt[o.key] : 0) + tl; if (T::multi) lo += wins.count(o.key) ? wins[o.key] : 0; else if (completed.count(o.key) || lo) lo = 1;
                // inserts of OTHER keys that had completed (their node linked) when the call began
                long done_before = ins_completed + n_thrown_linked - (completed.count(o.key) ? completed[o.key] : 0) - tl;
                size_t n;
                { OpScope sc(t, i); n = c.count(ek); }
                long hi = (pre_cnt.count(o.key) ? pre_cnt[o.key] : 0) + (started.count(o.key) ? started[o.key] : 0); if (!T::multi && hi > 1) hi = 1;
                // multi containers: count() = std::distance over equal_range(); elements linked between the two iterators while it
                // runs are counted too (bounded by the inserts in flight)
                // (caslist_count_bounds) lo <= n <= equivalent elements linked when it returns + elements of other keys linked meanwhile
                long inflight = T::multi ? (ins_started - (started.count(o.key) ? started[o.key] : 0) - done_before) : 0;
                if ((long)n < lo) fail("count(" + std::to_string(o.key) + ") = " + std::to_string(n) + " below the number of completed inserts " + std::to_string(lo));
                if ((long)n > hi + inflight) fail("count(" + std::to_string(o.key) + ") = " + std::to_string(n) + " above the number of started inserts of the key " + std::to_string(hi) + " + " + std::to_string(inflight) + " inserts of other keys in flight during the call");
                else if ((long)n > hi) observations.push_back("count(" + std::to_string(o.key) + ") = " + std::to_string(n) + " although only " + std::to_string(hi) + " such elements were ever inserted (concurrent inserts of other keys inside equal_range)");
                r.vals.push_back(n);
            } else if (o.name == "rtrav") {
                // traversal through range() sub-ranges (split as a parallel algorithm would), begin()/end() re-read on every step
                std::set<const void*> before = elems_done;
                std::vector<const void*> addrs;
                typedef typename C::range_type range_t;
                size_t n = 0;
                // depth-first like parallel_for: a sub-range is split again only when it is reached, i.e. after concurrent inserts may have
                // changed what lies inside it
                std::function<void(range_t&, int)> walk = [&](range_t& x, int depth) {
                    if (depth < 3 && x.is_divisible()) {
                        range_t right(x, tbb::split());
                        walk(x, depth + 1); walk(right, depth + 1);
                        return;
                    }
                    for (auto it = x.begin(); it != x.end(); ++it) {
                        if (++n > walk_bound) { fail("range traversal does not terminate / runs past its end"); break; }
                        r.vals.push_back(T::key(*it)); addrs.push_back(&*it); arena().hb_read(&*it);
                    }
                };
                range_t whole = c.range();
                walk(whole, 0);
                check_traversal(r.vals, addrs, before, "traversal through range() sub-ranges");
            } else if (o.name == "trav") {
                std::set<const void*> before = elems_done;
                std::vector<const void*> addrs;
                traverse(r.vals, addrs, "concurrent traversal");
                check_traversal(r.vals, addrs, before, "concurrent traversal");
            }
            } catch (const Injected& e) {
                // the operation left by the injected exception (the OpScope has recorded its calls).  What does the container look like?
                r.vals.assign(1, 2);
                if (is_ins) {
                    long ri = own_node_rec(t, i);
                    if (ri >= 0) {
                        const void* np = arena().base + arena().recs[ri].off;
                        long l = reachable_level(np);
                        if (l > 0) fail("a node whose insert threw is linked on level " + std::to_string(l) + " but not on level 0");
                        if (l == 0) {
                            // linked before the exception: the element stays (basic guarantee); it must stay alive
                            thrown_linked[o.key]++; n_thrown_linked++; g_postlink++;
                            node_ptr nn = (node_ptr)np;
                            elems_done.insert(&nn->value()); elems_all.insert(&nn->value()); partial_nodes.insert(np);
                            observations.push_back(std::string("insert left by an exception of the ") + F_NAMES[e.what] + " functor AFTER its node was linked on level 0: the element stays in the container (size() is not incremented, upper levels may be incomplete)");
                        } else if (!arena().recs[ri].dead) {
                            leak_ok.insert((size_t)ri); g_leaks++;
                            observations.push_back(std::string("insert left by an exception of the ") + F_NAMES[e.what] + " functor before its node was linked: the node is neither linked nor deallocated (leaked)");
                        }
                    }
                }
            }
            verif::note("e", i);
            res[t].push_back(r);
            g_ops_done[t]++;
        }
    });
    verif::Result rr = verif::run(bodies, sch, 100000);
    if (!rr.deadlock) {
        // happens-before (harness/shim/verif_hb.h): the allocating thread's initialisation of a node / table / segment, every read of an element obtained
        // from the container and the deallocation must be ordered by the memory orders the container passes to its atomic accesses
        auto races = verif::hb_check(rr.log, bodies.size());
        if (!races.empty()) fail(verif::hb_describe(rr.log, races[0]) + " (ghost cell = 1000000 + allocation record: initialisation by the allocating thread / reads of elements obtained from the container / deallocation)");
    }
    if (g_fair && g_fair->forced) observations.push_back("busy-wait: thread " + std::to_string(g_fair->spinner) + " ran " + std::to_string(g_fair->limit) +
        " consecutive steps without finishing (it spins on another thread's progress without pause/yield); " + std::to_string(g_fair->forced) + " forced switches");
    arena().on_dealloc = nullptr;
    bool focus_cas_failed = false;
    for (auto& e : rr.log) if (e.kind == verif::K_CAS && !e.ok && e.tid == g_focus) focus_cas_failed = true;

    std::vector<uint64_t> fin; std::vector<const void*> fin_addrs;
    node_ptr head = c.my_head_ptr.a.load();
    size_t maxh = c.my_max_height.a.load();
    for (auto& m : arena().errors) fail(m);
    // no node that is reachable from the head on any level is dead (white box, raw pointers)
    if (head && !rr.deadlock) {
        for (size_t l = 0; l < C::max_level && err.empty(); ++l) {
            size_t n = 0; bool any = false;
            for (node_ptr x = head->get_atomic_next(l).a.load(); x && n < walk_bound; x = x->get_atomic_next(l).a.load(), ++n) {
                any = true;
                if (arena().is_dead(x)) { fail("a deallocated node is reachable from the head on level " + std::to_string(l)); break; }
            }
            if (!any) break;
        }
    }
    std::vector<int> dead_before;
    if (!rr.deadlock) guarded([&] {
        traverse(fin, fin_addrs, "final traversal");
        check_traversal(fin, fin_addrs, elems_all, "final traversal");
        std::map<uint64_t, long> have, want = pre_cnt;
        for (auto k : fin) have[k]++;
        for (auto& kv : wins) if (kv.second) want[kv.first] += kv.second;
        for (auto& kv : thrown_linked) want[kv.first] += kv.second;
        if (have != want) fail("final contents differ from the union of successful inserts" + std::string(n_thrown_linked ? " and of the inserts that threw after linking their node" : ""));
        size_t sz = c.size();
        if (sz > fin.size() || sz + (size_t)n_thrown_linked < fin.size()) fail("size() = " + std::to_string(sz) + " but the list holds " + std::to_string(fin.size()));
        for (auto& kv : started) {
            long w = wins.count(kv.first) ? wins[kv.first] : 0;
            long tl = thrown_linked.count(kv.first) ? thrown_linked[kv.first] : 0;
            long done = completed.count(kv.first) ? completed[kv.first] : 0;
            long pre = pre_cnt.count(kv.first) ? pre_cnt[kv.first] : 0;
            if (T::multi) { if (w != done) fail("key " + std::to_string(kv.first) + ": " + std::to_string(w) + " inserts reported success, expected " + std::to_string(done)); }
            else {
                long present = pre + w + tl;
                if (present > 1 || (done > 0 && present != 1)) fail("key " + std::to_string(kv.first) + ": " + std::to_string(w) + " inserts reported success, expected " + std::to_string(pre + tl ? 0 : 1));
            }
        }
        // level structure: every level is a sub-sequence of the level below (white box)
        if (head && err.empty()) {
            std::vector<node_ptr> below;
            size_t n = 0;
            for (node_ptr x = head->get_atomic_next(0).a.load(); x && n < walk_bound; x = x->get_atomic_next(0).a.load(), ++n) below.push_back(x);
            for (size_t l = 1; l < C::max_level && err.empty(); ++l) {
                std::vector<node_ptr> lev; n = 0;
                for (node_ptr x = head->get_atomic_next(l).a.load(); x && n < walk_bound; x = x->get_atomic_next(l).a.load(), ++n) {
                    if (x->height() <= l) { fail("level " + std::to_string(l) + " links a node of height " + std::to_string(x->height())); break; }
                    lev.push_back(x);
                }
                if (l >= maxh && !lev.empty()) fail("level " + std::to_string(l) + " is populated above my_max_height");
                size_t j = 0;
                for (node_ptr x : lev) { while (j < below.size() && below[j] != x) ++j; if (j == below.size()) { fail("level " + std::to_string(l) + " is not a sub-sequence of level " + std::to_string(l - 1)); break; } ++j; }
                // every node tall enough must be on the level (a node whose insert threw while linking the upper levels is exempt)
                size_t cnt = 0, exempt = 0; for (node_ptr x : below) if (x->height() > l) { ++cnt; if (partial_nodes.count(x) && std::find(lev.begin(), lev.end(), x) == lev.end()) ++exempt; }
                if (err.empty() && cnt != lev.size() + exempt) fail("level " + std::to_string(l) + " misses nodes of sufficient height");
                below.swap(lev);
                if (below.empty()) break;
            }
        }
        // lookups from the top level land on the level-0 lower bound
        for (size_t i = 0; i < fin.size() && err.empty(); ++i) {
            auto it = c.lower_bound(Elem(fin[i]));
            size_t first = 0; while (first < fin.size() && fin[first] != fin[i]) ++first;
            if (it == c.end() || (const void*)&*it != fin_addrs[first]) fail("lower_bound(" + std::to_string(fin[i]) + ") is not the first element with that key");
            if (c.find(Elem(fin[i])) == c.end()) fail("element " + std::to_string(fin[i]) + " not found at quiescence");
            if (c.count(Elem(fin[i])) != (size_t)have[fin[i]]) fail("count(" + std::to_string(fin[i]) + ") wrong at quiescence");
        }
        // snapshot of what the run itself deallocated, then tear the container down: clear() + destructor free every node exactly once
        for (auto& rec : arena().recs) dead_before.push_back(rec.dead);
        if (err.empty()) {
        c.clear();
        for (auto& m : arena().errors) fail("clear(): " + m);
        if (err.empty()) {
            for (size_t ri = arena_mark; ri < arena().recs.size(); ++ri) {
                const void* np = arena().base + arena().recs[ri].off;
                if (np == (const void*)head) { if (arena().recs[ri].dead) fail("clear() deallocated the head node"); continue; }
                if (arena().recs[ri].dead == 0 && !leak_ok.count(ri)) { fail("node allocation #" + std::to_string(ri - arena_mark) + " is never deallocated although no exception was thrown in its insert (leak)"); break; }
            }
            if (c.begin() != c.end() || c.size() != 0) fail("container not empty after clear()");
        }
        if (err.empty()) {
            cp->~C();
            for (auto& m : arena().errors) fail("destructor: " + m);
            for (size_t ri = arena_mark; ri < arena().recs.size() && err.empty(); ++ri)
                if (arena().recs[ri].dead != 1 && !leak_ok.count(ri)) fail("after the destructor allocation #" + std::to_string(ri - arena_mark) + " has been deallocated " + std::to_string(arena().recs[ri].dead) + " times");
        }
        }
        }, "quiescent lookups/traversal/clear()/destructor");
    if (dead_before.empty()) for (auto& rec : arena().recs) dead_before.push_back(rec.dead);
    if (!observations.empty()) g_obs_runs++;
    bool ok = err.empty() && !rr.deadlock;
    g_last_fired = fc.fired;
    if (fc.fired && fc.what >= 0) g_fired_by[fc.what]++;
    if (print == 1 || !ok || (print == 2 && focus_cas_failed) || (print == 3 && fc.fired)) {
        std::map<const void*, std::string> var; std::map<uint64_t, std::string> val;
        std::vector<std::string> node_lines; std::string dead_line = "dead";
        long nid = 0;
        for (size_t ri = arena_mark; ri < arena().recs.size(); ++ri) {
            auto& rec = arena().recs[ri];
            node_ptr np = reinterpret_cast<node_ptr>(arena().base + rec.off);
            std::string name;
            if (np == head) name = "n0";
            else name = "n" + std::to_string(++nid);
            val[(uint64_t)np] = name;
            size_t h = (rec.bytes - sizeof(*np)) / sizeof(void*);
            for (size_t l = 0; l < h; ++l) var[&np->get_atomic_next(l)] = name + ".next" + std::to_string(l);
            if (np != head) node_lines.push_back("node " + name.substr(1) + " " + std::to_string(T::key(np->value())) + " " + std::to_string(h));
            if (np != head && dead_before[ri]) dead_line += " " + name.substr(1);
        }
        var[&c.my_head_ptr] = "headptr"; var[&c.my_max_height] = "maxh"; var[&c.my_size] = "size";
        printf("run %d\n", run_idx);
        for (auto& l : node_lines) printf("%s\n", l.c_str());
        auto vname = [&](const std::string& v, uint64_t x) -> std::string {
            if (v[0] == 'n' || v == "headptr") { if (!x) return "nil"; auto it = val.find(x); return it == val.end() ? "?" + std::to_string(x) : it->second; }
            return std::to_string(x);
        };
        for (auto& e : rr.log) {
            if (e.kind == verif::K_NOTE) {
                if (e.tag[0] == 'g') continue;                      // happens-before ghosts
                if (e.tag[0] == 'x') printf("x %d %s %llu\n", e.tid, F_NAMES[e.a < F_N ? e.a : 0], (unsigned long long)e.b);
                else printf("o %d %s %llu\n", e.tid, e.tag, (unsigned long long)e.a);
                continue;
            }
            if (e.kind > verif::K_FXOR) continue;
            auto it = var.find(e.addr);
            std::string v = it == var.end() ? "anon" : it->second;
            printf("e %d %s %s %s %s %d %s\n", e.tid, verif::kind_name(e.kind), v.c_str(), vname(v, e.a).c_str(), vname(v, e.b).c_str(), e.ok, verif::order_name(e.order));
        }
        for (size_t t = 0; t < T_n; ++t) for (size_t i = 0; i < res[t].size(); ++i) {
            printf("res %zu %zu %s %llu", t, i, res[t][i].name.c_str(), (unsigned long long)res[t][i].key);
            for (auto v : res[t][i].vals) printf(" %llu", (unsigned long long)v);
            printf("\n");
        }
        for (size_t t = 0; t < T_n; ++t) for (size_t i = 0; i < fc.calls[t].size(); ++i) {
            bool any = false; for (int f = 0; f < F_N; ++f) if (fc.calls[t][i].n[f]) any = true;
            if (!any) continue;
            printf("calls %zu %zu", t, i); for (int f = 0; f < F_N; ++f) if (fc.calls[t][i].n[f]) printf(" %s=%ld", F_NAMES[f], fc.calls[t][i].n[f]); printf("\n");
        }
        if (fc.tid >= 0) printf("fault %d %d %s %ld %d\n", fc.tid, fc.op, F_NAMES[fc.what], fc.k, fc.fired ? 1 : 0);
        printf("%s\n", dead_line.c_str());
        printf("fin"); for (auto k : fin) printf(" %llu", (unsigned long long)k); printf("\n");
        printf("maxhfin %zu\n", maxh);
        for (auto& ob : observations) printf("obs %s\n", ob.c_str());
        printf("mon %s%s\n", err.empty() ? (rr.deadlock ? "DEADLOCK" : "ok") : "VIOLATION ", err.c_str());
        printf("sched"); for (int s : rr.schedule) printf(" %d", s); printf("\nend\n");
        fflush(stdout);
    }
    if (rr.deadlock) { fflush(stdout); _exit(3); }
    return ok;
}

struct FaultPos { int tid, op, what; long k; };
// every (thread, operation, functor, k) with k <= the number of calls the operation made in the run that has just finished
static std::vector<FaultPos> fault_positions(int only_tid, long cap) {
    std::vector<FaultPos> all;
    FaultCtl& fc = fctl();
    for (size_t t = 0; t < fc.calls.size(); ++t) {
        if (only_tid >= 0 && (int)t != only_tid) continue;
        for (size_t i = 0; i < fc.calls[t].size(); ++i) for (int f = 0; f < F_N; ++f)
            for (long k = 1; k <= fc.calls[t][i].n[f]; ++k) all.push_back({(int)t, (int)i, f, k});
    }
    if (cap > 0 && (long)all.size() > cap) {      // evenly spaced sample that keeps the first and the last position
        std::vector<FaultPos> s;
        for (long j = 0; j < cap; ++j) s.push_back(all[(size_t)((double)j * (all.size() - 1) / (cap - 1) + 0.5)]);
        return s;
    }
    return all;
}

// which of the n fault runs of one base schedule are printed (for the replay on the Lean model): `printcap` of them, evenly
// spread, the offset rotating with the base schedule so that all functor kinds and call positions get printed over time
static bool print_pick(size_t fi, size_t n, long printcap, size_t rot) {
    if (printcap <= 0 || n == 0) return false;
    if ((size_t)printcap >= n) return true;
    for (long j = 0; j < printcap; ++j) if ((j * n / printcap + rot) % n == fi) return true;
    return false;
}

template <class C> static int drive(int argc, char** argv) {
    std::string mode = argv[1];
    long maxruns = argc > 3 ? atol(argv[3]) : 1;
    long cap = argc > 4 ? atol(argv[4]) : 0, printcap = argc > 5 ? atol(argv[5]) : 0;
    long runs = 0, bad = 0, fired = 0;
    FaultCtl& fc = fctl();
    if (g_sc.f_tid >= 0) fc.arm(g_sc.f_tid, g_sc.f_op, g_sc.f_what, g_sc.f_k);
    if (mode == "rand") {
        unsigned long long seed = strtoull(argv[2], 0, 10);
        for (long i = 0; i < maxruns; ++i) { verif::RandomSchedule s(seed * 7919 + i, 32 + (int)(i % 4) * 56); if (!run_once<C>(s, (int)i, 1)) bad++; runs++; }
    } else if (mode == "frand") {
        unsigned long long seed = strtoull(argv[2], 0, 10);
        for (long i = 0; i < maxruns && !bad; ++i) {
            fc.disarm();
            { verif::RandomSchedule s(seed * 7919 + i, 32 + (int)(i % 4) * 56); if (!run_once<C>(s, (int)runs, 1)) { bad++; break; } runs++; }
            auto fps = fault_positions(-1, cap);
            for (size_t fi = 0; fi < fps.size(); ++fi) {
                auto& fp = fps[fi];
                fc.arm(fp.tid, fp.op, fp.what, fp.k);
                verif::RandomSchedule s(seed * 7919 + i, 32 + (int)(i % 4) * 56);
                bool ok = run_once<C>(s, (int)runs, print_pick(fi, fps.size(), printcap, (size_t)(i + seed)) ? 3 : 0);
                runs++; if (g_last_fired) fired++;
                if (!ok) { bad++; break; }
            }
        }
    } else if (mode == "dfs") {
        verif::DfsSchedule d(atoi(argv[2]));
        FairSchedule f(d);
        do { d.pos = 0; d.preempts = 0; f.reset(); g_fair = &f; if (!run_once<C>(f, (int)runs, 0)) { bad++; break; } runs++; } while (runs < maxruns && d.next());
    } else if (mode == "guide") {
        GuideSchedule g; g.segs = GuideSchedule::parse(argv[2]); g.ops_done = &g_ops_done;
        FairSchedule f(g); g_fair = &f;
        if (!run_once<C>(f, 0, 1)) bad++; runs++;
    } else if (mode == "sweep" || mode == "fsweep") {
        bool faults = mode == "fsweep";
        int H = atoi(argv[2]); g_focus = H;
        std::vector<int> others; for (size_t t = 0; t < g_sc.progs.size(); ++t) if ((int)t != H) others.push_back((int)t);
        std::vector<std::vector<int>> orders;       // every ordered selection of 1..n of the other threads
        std::function<void(std::vector<int>&)> gen = [&](std::vector<int>& cur) {
            if (!cur.empty()) orders.push_back(cur);
            for (int t : others) { bool used = false; for (int u : cur) if (u == t) used = true; if (used) continue; cur.push_back(t); gen(cur); cur.pop_back(); }
        };
        std::vector<int> cur0; gen(cur0);
        bool stop = false;
        for (long j = 1; j < 2000 && !stop && !bad; ++j) {
            for (auto& ord : orders) {
                if (runs >= maxruns) { stop = true; break; }
                auto guided = [&](int pr) {
                    GuideSchedule g; g.ops_done = &g_ops_done;
                    g.segs.push_back({H, '*', j});
                    for (int t : ord) g.segs.push_back({t, '!', 0});
                    g.segs.push_back({H, '!', 0});
                    FairSchedule f(g); g_fair = &f;
                    bool ok = run_once<C>(f, (int)runs, pr);
                    runs++;
                    if (g.first_short) stop = true;       // H finished within j picks: every hold point has been visited
                    return ok;
                };
                fc.disarm();
                if (!guided(!faults && cap == 1 ? 1 : 2)) { bad++; break; }      // `sweep H maxruns 1`: print every run
                if (!faults) continue;
                bool stop_clean = stop;
                auto fps = fault_positions(H, cap);
                for (size_t fi = 0; fi < fps.size(); ++fi) {
                    auto& fp = fps[fi];
                    fc.arm(fp.tid, fp.op, fp.what, fp.k);
                    bool ok = guided(print_pick(fi, fps.size(), printcap, (size_t)(j * 7 + runs)) ? 3 : 0);
                    if (g_last_fired) fired++;
                    if (!ok) { bad++; break; }
                }
                stop = stop_clean;
                if (bad) break;
            }
        }
    } else if (mode == "replay") {
        verif::ReplaySchedule s; s.tids = strcmp(argv[2], "-") ? parse_sched(argv[2]) : g_sc.sched;
        FairSchedule f(s); g_fair = &f;
        if (!run_once<C>(f, 0, 1)) bad++; runs++;
    }
    printf("summary runs=%ld bad=%ld obs=%ld fired=%ld postlink=%ld leaks=%ld byf", runs, bad, g_obs_runs, fired, g_postlink, g_leaks);
    for (int f = 0; f < F_N; ++f) printf(" %s=%ld", F_NAMES[f], g_fired_by[f]);
    printf("\n");
    return bad ? 1 : 0;
}

int main(int argc, char** argv) {
    if (argc < 3) return 2;
    g_sc = read_scenario(stdin);
    if (g_sc.kind == "oset") return drive<OSet>(argc, argv);
    if (g_sc.kind == "omset") return drive<OMSet>(argc, argv);
    if (g_sc.kind == "omap") return drive<OMap>(argc, argv);
    if (g_sc.kind == "ommap") return drive<OMMap>(argc, argv);
    fprintf(stderr, "unknown kind\n");
    return 2;
}
