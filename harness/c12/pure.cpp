// C12 E-PURE: reverse_bits / reverse_n_bits / split-order keys / get_parent of the real headers.
// stdin: "rev x" | "revn w x" | "reg x" | "dum x" | "par x"; one result line per input line.  -fno-access-control.
#include <oneapi/tbb/concurrent_unordered_set.h>
#include <cstdio>
#include <cstring>
#include <cstdlib>
int main() {
    using U = tbb::concurrent_unordered_set<int>;
    U u;
    char f[32], a[64], b[64], line[256];
    while (fgets(line, sizeof line, stdin)) {
        int n = sscanf(line, "%31s %63s %63s", f, a, b);
        if (n < 2) { printf("bad-op\n"); continue; }
        char* end = nullptr;
        unsigned long long x = strtoull(a, &end, 10);
        if (*end) { printf("bad-op\n"); continue; }
        if (!strcmp(f, "rev") && n == 2) printf("%llu\n", (unsigned long long)tbb::detail::reverse_bits<std::size_t>(x));
        else if (!strcmp(f, "reg") && n == 2) printf("%llu\n", (unsigned long long)U::split_order_key_regular(x));
        else if (!strcmp(f, "dum") && n == 2) printf("%llu\n", (unsigned long long)U::split_order_key_dummy(x));
        else if (!strcmp(f, "par") && n == 2) { if (x == 0) printf("reject\n"); else printf("%llu\n", (unsigned long long)u.get_parent(x)); }
        else if (!strcmp(f, "chk") && n == 3) {
            // property-level facts evaluated with the implementation's own functions: hash x, table size 2^k
            unsigned long long k = strtoull(b, &end, 10);
            if (*end || k > 63) { printf("bad-op\n"); continue; }
            unsigned long long bk = k == 0 ? 0 : (x & ((1ull << k) - 1));
            unsigned long long reg = U::split_order_key_regular(x), dum = U::split_order_key_dummy(bk);
            const char* bad = nullptr;
            if (!(reg & 1)) bad = "regular-key-even";
            else if (dum & 1) bad = "dummy-key-odd";
            else if (!(dum < reg)) bad = "dummy-not-below-regular";
            else if (k < 63 && k > 0 && !(reg - dum < (1ull << (64 - k)))) bad = "regular-outside-bucket-segment";
            else if (bk != 0) {
                unsigned long long p = u.get_parent(bk);
                if (!(p < bk)) bad = "parent-not-below-bucket";
                else if (!(U::split_order_key_dummy(p) < dum)) bad = "parent-dummy-not-below-child-dummy";
            }
            if (bad) printf("bad %s\n", bad); else printf("ok\n");
        }
        else if (!strcmp(f, "revn") && n == 3) {
            unsigned long long y = strtoull(b, &end, 10);
            if (*end || x == 0 || x > 64) { printf("bad-op\n"); continue; }
            printf("%llu\n", (unsigned long long)tbb::detail::reverse_n_bits<std::size_t>(y, x));
        } else printf("bad-op\n");
    }
    return 0;
}
