// C12 E-SHIM harness: concurrent_unordered_{set,multiset,map,multimap} under the controlled scheduler, with user functors
// that can throw at their k-th call inside one operation (hasher, key_equal, element constructor, allocator) and an allocator
// that records deallocations.
// usage: uo <rand seed nruns | dfs bound maxruns | replay t,t,t,... | guide segs | sweep H maxruns |
//            frand seed nruns cap printcap | fsweep H maxruns cap printcap>   (scenario on stdin, see c12_common.h; fault modes as in sl.cpp)
//   kind uset|umset|umap|ummap / bc <initial bucket count> / mlf <num> <den> | mlfb <float bits> / hash k h k h ... /
//   pre ins:k rsv:n reh:n mlf:bits ... / prog ins:k find:k has:k cnt:k trav emp:k rsv:n reh:n mlf:bits   (one line per thread)
//   guide: `t*n` n picks of t, `t!` t to completion, `t@m` t until m ops are done;  sweep H: for j = 1, 2, ... hold thread H after
//   j picks while every ordered selection of the other threads runs to completion, then H (traces printed when H had a failed CAS)
// Per run prints: run i / node id ok uk kind / e tid kind var a b ok / o tid b|e idx / res tid idx op key values /
//                 fin <final traversal keys> / bcfin n / mon verdict / sched tids / end
//                 x tid functor k (the call that threw) / calls tid op functor=n ... / fault tid op functor k fired / dead <node ids>
// Built with -fno-access-control and the E-SHIM prelude.  Property monitors are independent of the Lean model.
#include "c12_common.h"
#include <functional>
#include <oneapi/tbb/concurrent_unordered_set.h>
#include <oneapi/tbb/concurrent_unordered_map.h>

using namespace c12;
static Scenario g_sc;
static FairSchedule* g_fair = nullptr;
static long g_obs_runs = 0;
static std::vector<long> g_ops_done;
static int g_focus = -1;

struct Hash {
    size_t operator()(const Elem& e) const { functor_call(F_HASH); return of(e.v); }
    static size_t of(uint64_t k) { auto it = g_sc.hash.find(k); return it == g_sc.hash.end() ? (size_t)k : (size_t)it->second; }
};
struct Eq {
    bool operator()(const Elem& a, const Elem& b) const { functor_call(F_EQ); return a.v == b.v; }
};
namespace c12 {
template <> struct node_tag<tbb::detail::d2::list_node<size_t>> { static constexpr int value = 1; };
template <class V> struct node_tag<tbb::detail::d2::value_node<V, size_t>> { static constexpr int value = 1; };
}
using PairT = std::pair<const Elem, uint64_t>;
using USet = tbb::concurrent_unordered_set<Elem, Hash, Eq, BumpAlloc<Elem>>;
using UMSet = tbb::concurrent_unordered_multiset<Elem, Hash, Eq, BumpAlloc<Elem>>;
using UMap = tbb::concurrent_unordered_map<Elem, uint64_t, Hash, Eq, BumpAlloc<PairT>>;
using UMMap = tbb::concurrent_unordered_multimap<Elem, uint64_t, Hash, Eq, BumpAlloc<PairT>>;

template <class C> struct Tr;
template <> struct Tr<USet> { static constexpr bool multi = false; static Elem val(uint64_t k, uint64_t) { return Elem(k); } static uint64_t key(const Elem& v) { return v.v; } };
template <> struct Tr<UMSet> { static constexpr bool multi = true; static Elem val(uint64_t k, uint64_t) { return Elem(k); } static uint64_t key(const Elem& v) { return v.v; } };
template <> struct Tr<UMap> { static constexpr bool multi = false; static PairT val(uint64_t k, uint64_t tag) { return PairT(Elem(k), tag); } static uint64_t key(const PairT& v) { return v.first.v; } };
template <> struct Tr<UMMap> { static constexpr bool multi = true; static PairT val(uint64_t k, uint64_t tag) { return PairT(Elem(k), tag); } static uint64_t key(const PairT& v) { return v.first.v; } };

// split-order keys recomputed independently of the header under test (for the monitors)
static uint64_t mon_rev(uint64_t x) { uint64_t r = 0; for (int i = 0; i < 64; ++i) if (x >> i & 1) r |= uint64_t(1) << (63 - i); return r; }
static uint64_t mon_dummy(uint64_t b) { return mon_rev(b) & ~uint64_t(1); }
static uint64_t mon_regular(uint64_t h) { return mon_rev(h) | 1; }

struct OpRes { std::string name; uint64_t key; std::vector<uint64_t> vals; };
static bool g_last_fired = false;
static long g_fired_by[F_N] = {0, 0, 0, 0, 0};
static long g_postlink = 0, g_leaks = 0;      // fault runs in which an insert threw after / before its node was linked (node leaked)

template <class C>
static bool run_once(verif::Schedule& sch, int run_idx, int print) {
    using T = Tr<C>;
    using node_ptr = typename C::node_ptr;
    using value_node_ptr = typename C::value_node_ptr;
    using value_node_type = typename std::remove_pointer<value_node_ptr>::type;
    arena().reset();
    FaultCtl& fc = fctl();
    fc.fired = false;
    fc.calls.assign(g_sc.progs.size(), {});
    for (size_t t = 0; t < g_sc.progs.size(); ++t) fc.calls[t].assign(g_sc.progs[t].size(), CallCount());
    C* cp = new (arena().alloc(sizeof(C), 64, 2)) C((size_t)g_sc.bc);     // destroyed explicitly at the end of a healthy run
    size_t arena_mark = arena().recs.size();
    C& c = *cp;
    if (g_sc.has_mlf_bits) { float f; memcpy(&f, &g_sc.mlf_bits, 4); c.max_load_factor(f); }
    else c.max_load_factor(float(g_sc.mlf_num) / float(g_sc.mlf_den));
    // reserve / rehash / max_load_factor(f): returns 1, or 0 when the load factor was rejected (exception)
    auto size_op = [&](const OpSpec& o) -> uint64_t {
        if (o.name == "rsv") { c.reserve((size_t)o.key); return 1; }
        if (o.name == "reh") { c.rehash((size_t)o.key); return 1; }
        uint32_t b = (uint32_t)o.key; float f; memcpy(&f, &b, 4);
        try { c.max_load_factor(f); } catch (...) { return 0; }
        return 1;
    };
    auto is_size_op = [](const OpSpec& o) { return o.name == "rsv" || o.name == "reh" || o.name == "mlf"; };
    size_t T_n = g_sc.progs.size();
    size_t total_ins = g_sc.pre.size();
    for (auto& p : g_sc.progs) for (auto& o : p) if (o.name == "ins" || o.name == "emp") total_ins++;
    const size_t walk_bound = 4 * total_ins + 4096;

    std::string err;
    auto fail = [&](const std::string& m) { if (err.empty()) err = m; };
    // sequential phases also run under the scheduler (one thread, step limit): a corrupted list must not hang the harness
    auto guarded = [&](const std::function<void()>& f, const char* what) {
        verif::ReplaySchedule rs;
        std::vector<std::function<void()>> b{f};
        verif::Result g = verif::run(b, rs, 3000000);
        if (g.deadlock) {
            printf("run %d\nmon VIOLATION %s does not terminate (corrupted list)%s%s\nsched\nend\n", run_idx, what, err.empty() ? "" : "; earlier: ", err.c_str());
            fflush(stdout); _exit(3);
        }
    };
    std::map<uint64_t, long> pre_cnt, started, completed, wins, thrown_linked;
    long ins_started = 0, ins_completed = 0, n_thrown_linked = 0; std::vector<std::string> observations;
    std::set<const void*> elems_done;           // elements whose successful insert has returned
    std::set<const void*> elems_all;            // elements returned by any successful insert
    std::set<size_t> leak_ok;                   // allocation records of value nodes whose insert threw before the node was linked
    // white box, no scheduling points: is the list node `np` reachable from the head, or does a bucket slot point at it?
    auto reachable = [&](const void* np) -> const char* {
        size_t n = 0;
        for (node_ptr x = c.my_head.my_next.a.load(); x && n < walk_bound; x = x->my_next.a.load(), ++n) if ((const void*)x == np) return "reachable from the head";
        auto* tab0 = c.my_segments.my_segment_table.a.load();
        for (size_t sg = 0; sg < 40; ++sg) {
            auto* segp = tab0[sg].a.load();
            if (!segp || (uintptr_t)segp < 4096) continue;
            size_t base = c.my_segments.segment_base(sg), cnt = c.my_segments.segment_size(sg);
            for (size_t b = base; b < base + cnt; ++b) if ((const void*)segp[b].a.load() == np) return "the entry of a bucket";
        }
        return nullptr;
    };
    // an allocation that is deallocated must not be reachable any more (checked at the moment of the deallocation)
    arena().on_dealloc = [&](size_t ri) {
        if (ri < arena_mark || arena().recs[ri].tag != 1) return;
        const char* how = reachable(arena().base + arena().recs[ri].off);
        if (how) fail(std::string("node deallocated while it is still ") + how + ": a dead node stays linked");
    };
    // the value node an insert operation allocated, or -1
    auto own_node_rec = [&](size_t t, size_t i) -> long {
        for (size_t ri = arena_mark; ri < arena().recs.size(); ++ri) {
            auto& rec = arena().recs[ri];
            if (rec.tid == (int)t && rec.op == (int)i && rec.tag == 1 && rec.bytes == sizeof(value_node_type)) return (long)ri;
        }
        return -1;
    };
    guarded([&] {
        for (auto& o : g_sc.pre) {
            if (is_size_op(o)) { size_op(o); continue; }
            if (o.name == "find" || o.name == "has") { (void)c.contains(Elem(o.key)); continue; }      // initialises the key's bucket
            auto r = c.insert(T::val(o.key, 900000 + pre_cnt.size()));
            if (r.second) { pre_cnt[o.key]++; elems_done.insert(&*r.first); elems_all.insert(&*r.first); }
            else if (T::multi) fail("pre-insert into a multi container failed");
        }
    }, "sequential pre-insert phase");
    std::vector<std::vector<OpRes>> res(T_n);
    std::vector<size_t> bc_hist{c.my_bucket_count.a.load()};          // every bucket count the table has had
    g_ops_done.assign(T_n, 0);

    auto traverse = [&](std::vector<uint64_t>& keys, std::vector<const void*>& addrs, const char* who) {
        size_t n = 0; uint64_t last_ok = 0;
        for (auto it = c.begin(); it != c.end(); ++it) {
            if (++n > walk_bound) { fail(std::string(who) + ": traversal does not terminate (cycle in the list)"); break; }
            node_ptr np = it.get_node_ptr();
            if (arena().is_dead(np)) fail(std::string(who) + ": iteration walks through a deallocated node (key bytes read as " + std::to_string(T::key(*it)) + ")");
            if (np->order_key() < last_ok) fail(std::string(who) + ": traversal not in split order");
            last_ok = np->order_key();
            keys.push_back(T::key(*it)); addrs.push_back(&*it); arena().hb_read(&*it);
        }
    };
    auto check_traversal = [&](const std::vector<uint64_t>& keys, const std::vector<const void*>& addrs,
                               const std::set<const void*>& before, const char* who) {
        std::set<const void*> seen;
        for (size_t i = 0; i < addrs.size(); ++i) {
            if (!seen.insert(addrs[i]).second) fail(std::string(who) + ": element seen twice, key " + std::to_string(keys[i]));
            if (!started.count(keys[i]) && !pre_cnt.count(keys[i])) fail(std::string(who) + ": saw key " + std::to_string(keys[i]) + " that nobody inserts");
        }
        for (const void* a : before) if (!seen.count(a)) { fail(std::string(who) + ": missed an element that was present before the traversal began"); break; }
        if (!T::multi) { std::set<uint64_t> ks; for (auto k : keys) if (!ks.insert(k).second) fail(std::string(who) + ": two equivalent keys in a unique container, key " + std::to_string(k)); }
    };

    verif::clear_names();
    std::vector<std::function<void()>> bodies;
    for (size_t t = 0; t < T_n; ++t) bodies.push_back([&, t] {
        for (size_t i = 0; i < g_sc.progs[t].size(); ++i) {
            const OpSpec& o = g_sc.progs[t][i];
            OpRes r{o.name, o.key, {}};
            verif::note("b", i);
            const Elem ek(o.key);
            bool is_ins = o.name == "ins" || o.name == "emp";
            try {
            if (is_ins) {
                started[o.key]++; ins_started++;
                bool ok; const void* addr;
                auto v = T::val(o.key, t * 1000 + i);
                if (o.name == "ins") { OpScope sc(t, i); auto pr = c.insert(std::move(v)); t_active = false; ok = pr.second; addr = &*pr.first; arena().hb_read(addr); if (T::key(*pr.first) != o.key) fail("insert returned an iterator to a different key"); }
                else { OpScope sc(t, i); auto pr = c.emplace(std::move(v)); t_active = false; ok = pr.second; addr = &*pr.first; arena().hb_read(addr); if (T::key(*pr.first) != o.key) fail("emplace returned an iterator to a different key"); }
                completed[o.key]++; ins_completed++;
                if (ok) { wins[o.key]++; if (!elems_all.insert(addr).second) fail("two successful inserts returned the same element"); elems_done.insert(addr); }
                else if (T::multi) fail("insert into a multi container reported failure");
                if (arena().is_dead(addr)) fail("insert returned an iterator to a deallocated node");
                r.vals.push_back(ok);
            } else if (o.name == "find" || o.name == "has") {
                bool must = completed.count(o.key) || pre_cnt.count(o.key) || thrown_linked.count(o.key);
                bool f;
                if (o.name == "find") { OpScope sc(t, i); auto it = c.find(ek); t_active = false; f = it != c.end(); if (f) arena().hb_read(&*it); if (f && arena().is_dead(&*it)) fail("find returned a deallocated node"); }
                else { OpScope sc(t, i); f = c.contains(ek); }
                bool may = started.count(o.key) || pre_cnt.count(o.key);
                if (must && !f) fail("find-after-insert: key " + std::to_string(o.key) + " not found although an insert of it had returned");
                if (f && !may) fail("found key " + std::to_string(o.key) + " that nobody inserts");
                r.vals.push_back(f);
            } else if (o.name == "cnt") {
                long tl = thrown_linked.count(o.key) ? thrown_linked[o.key] : 0;
                long lo = (pre_cnt.count(o.key) ? pre_cnt[o.key] : 0) + tl; if (T::multi) lo += wins.count(o.key) ? wins[o.key] : 0; else if (completed.count(o.key) || lo) lo = 1;
                // inserts of OTHER keys that had completed (their node linked) when the call began
                long done_before = ins_completed + n_thrown_linked - (completed.count(o.key) ? completed[o.key] : 0) - tl;
                size_t n;
                { OpScope sc(t, i); n = c.count(ek); }
                long hi = (pre_cnt.count(o.key) ? pre_cnt[o.key] : 0) + (started.count(o.key) ? started[o.key] : 0); if (!T::multi && hi > 1) hi = 1;
                // multi containers: count() = std::distance over equal_range(); elements of OTHER keys linked between the two
                // iterators while it runs are counted too (reported as an observation, bounded by the inserts in flight)
                // (caslist_count_bounds) lo <= n <= equivalent elements linked when it returns + elements of other keys linked meanwhile
                long inflight = T::multi ? (ins_started - (started.count(o.key) ? started[o.key] : 0) - done_before) : 0;
                if ((long)n < lo) fail("count(" + std::to_string(o.key) + ") = " + std::to_string(n) + " below the number of completed inserts " + std::to_string(lo));
                if ((long)n > hi + inflight) fail("count(" + std::to_string(o.key) + ") = " + std::to_string(n) + " above the number of started inserts of the key " + std::to_string(hi) + " + " + std::to_string(inflight) + " inserts of other keys in flight during the call");
                else if ((long)n > hi) observations.push_back("count(" + std::to_string(o.key) + ") = " + std::to_string(n) + " although only " + std::to_string(hi) + " such elements were ever inserted (concurrent inserts of other keys inside equal_range)");
                r.vals.push_back(n);
            } else if (is_size_op(o)) {
                OpScope sc(t, i);
                r.vals.push_back(size_op(o));
            } else if (o.name == "rtrav") {
                // traversal through range(): the range is split (as a parallel algorithm would) into up to 4 sub-ranges, each walked with
                // begin()/end() re-read on every step; together they must see every element that was present before exactly once
                std::set<const void*> before = elems_done;
                std::vector<const void*> addrs;
                typedef typename C::range_type range_t;
                size_t n = 0;
                // depth-first like parallel_for: a sub-range is split again only when it is reached, i.e. after concurrent inserts may have
                // changed what lies inside it
                std::function<void(range_t&, int)> walk = [&](range_t& x, int depth) {
                    if (depth < 3 && x.is_divisible()) {
                        range_t right(x, tbb::split());
                        walk(x, depth + 1); walk(right, depth + 1);
                        return;
                    }
                    for (auto it = x.begin(); it != x.end(); ++it) {
                        if (++n > walk_bound) { fail("range traversal does not terminate / runs past its end"); break; }
                        node_ptr np = it.get_node_ptr();
                        if (arena().is_dead(np)) fail("range traversal walks through a deallocated node");
                        r.vals.push_back(T::key(*it)); addrs.push_back(&*it); arena().hb_read(&*it);
                    }
                };
                range_t whole = c.range();
                walk(whole, 0);
                check_traversal(r.vals, addrs, before, "traversal through range() sub-ranges");
            } else if (o.name == "trav") {
                std::set<const void*> before = elems_done;
                std::vector<const void*> addrs;
                traverse(r.vals, addrs, "concurrent traversal");
                check_traversal(r.vals, addrs, before, "concurrent traversal");
            }
            } catch (const Injected& e) {
                // the operation left by the injected exception (the OpScope has recorded its calls).  What does the container look like?
                r.vals.assign(1, 2);
                if (is_ins) {
                    long ri = own_node_rec(t, i);
                    if (ri >= 0) {
                        const void* np = arena().base + arena().recs[ri].off;
                        if (reachable(np)) {
                            thrown_linked[o.key]++; n_thrown_linked++; g_postlink++;
                            value_node_ptr nn = (value_node_ptr)np;
                            elems_done.insert(nn->storage()); elems_all.insert(nn->storage());
                            observations.push_back(std::string("insert left by an exception of the ") + F_NAMES[e.what] + " functor AFTER its node was linked: the element stays in the container");
                        } else if (!arena().recs[ri].dead) {
                            leak_ok.insert((size_t)ri); g_leaks++;
                            observations.push_back(std::string("insert left by an exception of the ") + F_NAMES[e.what] + " functor before its node was linked: the node is neither linked nor deallocated (leaked)");
                        }
                    }
                }
            }
            verif::note("e", i);
            res[t].push_back(r);
            g_ops_done[t]++;
        }
    });
    verif::Result rr = verif::run(bodies, sch, 100000);
    if (!rr.deadlock) {
        // happens-before (harness/shim/verif_hb.h): the allocating thread's initialisation of a node / table / segment, every read of an element obtained
        // from the container and the deallocation must be ordered by the memory orders the container passes to its atomic accesses
        auto races = verif::hb_check(rr.log, bodies.size());
        if (!races.empty()) fail(verif::hb_describe(rr.log, races[0]) + " (ghost cell = 1000000 + allocation record: initialisation by the allocating thread / reads of elements obtained from the container / deallocation)");
    }
    arena().on_dealloc = nullptr;
    for (auto& m : arena().errors) fail(m);
    if (g_fair && g_fair->forced) observations.push_back("busy-wait: thread " + std::to_string(g_fair->spinner) + " ran " + std::to_string(g_fair->limit) +
        " consecutive steps without finishing (it spins on another thread's progress without pause/yield); " + std::to_string(g_fair->forced) + " forced switches");

    // ---- quiescent monitors (skipped after a deadlock: threads are stuck inside the container) ----
    std::vector<uint64_t> fin; std::vector<const void*> fin_addrs;
    size_t bcfin = c.my_bucket_count.a.load();
    bool focus_cas_failed = false;
    for (auto& e : rr.log) {
        if (e.kind == verif::K_CAS && e.ok && e.addr == (const void*)&c.my_bucket_count) bc_hist.push_back((size_t)e.b);
        if (e.kind == verif::K_CAS && !e.ok && e.tid == g_focus) focus_cas_failed = true;
    }
    bc_hist.push_back(bcfin);
    for (size_t v : bc_hist) if (v == 0 || (v & (v - 1))) { fail("bucket count " + std::to_string(v) + " is not a power of two"); break; }
    // white-box walk of the raw list (dummy nodes included): sorted by order key, dummy keys unique, it terminates
    std::set<const void*> raw_nodes;
    if (!rr.deadlock) {
        size_t n = 0; node_ptr prevn = &c.my_head;
        raw_nodes.insert(prevn);
        for (node_ptr x = c.my_head.my_next.a.load(); x; x = x->my_next.a.load()) {
            if (++n > walk_bound) { fail("raw list walk does not terminate (cycle)"); break; }
            if (!raw_nodes.insert(x).second) { fail("raw list walk meets a node twice (cycle)"); break; }
            if (arena().is_dead(x)) { fail(std::string("a deallocated ") + (x->is_dummy() ? "dummy" : "regular") + " node is reachable from the head"); break; }
            if (x->order_key() < prevn->order_key())
                fail(std::string("list not sorted: ") + (x->is_dummy() ? "dummy" : "regular") + " node with order key " + std::to_string(x->order_key()) +
                     " is linked behind " + (prevn->is_dummy() ? "dummy" : "regular") + " node with order key " + std::to_string(prevn->order_key()));
            else if (x->is_dummy() && x->order_key() == prevn->order_key()) fail("two dummy nodes with order key " + std::to_string(x->order_key()));
            prevn = x;
        }
        // every initialised bucket slot points at a dummy node of the list that carries the bucket's dummy key
        auto* tab0 = c.my_segments.my_segment_table.a.load();
        for (size_t sg = 0; sg < 40 && err.empty(); ++sg) {
            auto* segp = tab0[sg].a.load();
            if (!segp || (uintptr_t)segp < 4096) continue;
            size_t base = c.my_segments.segment_base(sg), cnt = c.my_segments.segment_size(sg);
            for (size_t b = base; b < base + cnt; ++b) {
                node_ptr d = segp[b].a.load();
                if (!d) continue;
                if (arena().is_dead(d)) { fail("bucket " + std::to_string(b) + " points at a deallocated node"); break; }
                if (!raw_nodes.count(d)) { fail("bucket " + std::to_string(b) + " points at a node that is not in the list"); break; }
                if (d->order_key() != mon_dummy(b) || (b != 0 && !d->is_dummy())) { fail("bucket " + std::to_string(b) + " entry has the wrong order key"); break; }
            }
        }
    }
    // ---- canonical names (collected before the container is torn down) ----
    std::map<const void*, std::string> var; std::map<uint64_t, std::string> val;
    std::vector<std::string> node_lines; std::string dead_line = "dead";
    auto collect_names = [&] {
        var[&c.my_head.my_next] = "n0.next"; val[(uint64_t)&c.my_head] = "n0";
        node_lines.push_back("node 0 0 - d");
        long nid = 0;
        for (auto& rec : arena().recs) if (rec.tag == 1) {
            ++nid;
            auto* ln = reinterpret_cast<typename C::list_node_type*>(arena().base + rec.off);
            var[&ln->my_next] = "n" + std::to_string(nid) + ".next"; val[(uint64_t)ln] = "n" + std::to_string(nid);
            bool dummy = ln->is_dummy() || rec.bytes != sizeof(value_node_type);
            node_lines.push_back("node " + std::to_string(nid) + " " + std::to_string(ln->order_key()) + " " +
                                 (dummy ? std::string("-") : std::to_string(T::key(static_cast<value_node_ptr>(ln)->value()))) + (dummy ? " d" : " r"));
            if (rec.dead) dead_line += " " + std::to_string(nid);
        }
        var[&c.my_bucket_count] = "bc"; var[&c.my_size] = "size"; var[&c.my_segments.my_segment_table] = "segtab";
        auto* tab = c.my_segments.my_segment_table.a.load();
        for (size_t s = 0; s < 40; ++s) {
            var[&tab[s]] = "seg" + std::to_string(s);
            auto* segp = tab[s].a.load();
            if (!segp || (uintptr_t)segp < 4096) continue;
            size_t base = c.my_segments.segment_base(s), n = c.my_segments.segment_size(s);
            for (size_t b = base; b < base + n; ++b) var[&segp[b]] = "slot" + std::to_string(b);
        }
    };
    auto teardown = [&] {
    // tear the container down: clear() + destructor free every node exactly once
    if (err.empty() && !rr.deadlock) {
        c.clear();
        for (auto& m : arena().errors) fail("clear(): " + m);
        for (size_t ri = arena_mark; ri < arena().recs.size() && err.empty(); ++ri) {
            auto& rec = arena().recs[ri];
            if (rec.tag == 1 && rec.dead == 0 && !leak_ok.count(ri)) fail("node allocation #" + std::to_string(ri - arena_mark) + " is never deallocated although no exception was thrown in its insert (leak)");
        }
        if (err.empty() && (c.begin() != c.end() || c.size() != 0)) fail("container not empty after clear()");
        if (err.empty()) {
            cp->~C();
            for (auto& m : arena().errors) fail("destructor: " + m);
            for (size_t ri = arena_mark; ri < arena().recs.size() && err.empty(); ++ri)
                if (arena().recs[ri].dead != 1 && !leak_ok.count(ri)) fail("after the destructor allocation #" + std::to_string(ri - arena_mark) + " has been deallocated " + std::to_string(arena().recs[ri].dead) + " times");
        }
    }
    };
    if (!rr.deadlock) guarded([&] {
        traverse(fin, fin_addrs, "final traversal");
        check_traversal(fin, fin_addrs, elems_all, "final traversal");
        std::map<uint64_t, long> have, want = pre_cnt;
        for (auto k : fin) have[k]++;
        for (auto& kv : wins) if (kv.second) want[kv.first] += kv.second;
        for (auto& kv : thrown_linked) want[kv.first] += kv.second;
        if (have != want) fail("final contents differ from the union of successful inserts" + std::string(n_thrown_linked ? " and of the inserts that threw after linking their node" : ""));
        size_t sz = c.size();
        if (sz > fin.size() || sz + (size_t)n_thrown_linked < fin.size()) fail("size() = " + std::to_string(sz) + " but the list holds " + std::to_string(fin.size()));
        for (auto& kv : started) {
            long w = wins.count(kv.first) ? wins[kv.first] : 0;
            long tl = thrown_linked.count(kv.first) ? thrown_linked[kv.first] : 0;
            long done = completed.count(kv.first) ? completed[kv.first] : 0;
            long pre = pre_cnt.count(kv.first) ? pre_cnt[kv.first] : 0;
            if (T::multi) { if (w != done) fail("key " + std::to_string(kv.first) + ": " + std::to_string(w) + " inserts reported success, expected " + std::to_string(done)); }
            else {
                long present = pre + w + tl;
                if (present > 1 || (done > 0 && present != 1)) fail("key " + std::to_string(kv.first) + ": " + std::to_string(w) + " inserts reported success, expected " + std::to_string(pre + tl ? 0 : 1));
            }
        }
        // every element reachable from its bucket's entry point, for every table size the table went through
        for (size_t i = 0; i < fin.size() && err.empty(); ++i) {
            uint64_t h = Hash::of(fin[i]);
            if (c.find(Elem(fin[i])) == c.end()) fail("element " + std::to_string(fin[i]) + " not found at quiescence");
            if (T::multi && c.count(Elem(fin[i])) != (size_t)have[fin[i]]) fail("count(" + std::to_string(fin[i]) + ") wrong at quiescence");
            std::set<size_t> sizes(bc_hist.begin(), bc_hist.end());
            for (size_t sz = 1; sz <= bcfin && sz; sz *= 2) sizes.insert(sz);
            for (size_t sz : sizes) {
                if (!sz) continue;
                size_t b = h % sz;
                auto seg = c.my_segments.segment_index_of(b);
                auto* segp = c.my_segments.my_segment_table.a.load()[seg].a.load();
                if (!segp || (uintptr_t)segp < 4096) continue;
                node_ptr d = segp[b].a.load();
                if (!d) continue;
                if (d->order_key() != mon_dummy(b)) { fail("bucket " + std::to_string(b) + " entry has the wrong order key"); break; }
                bool found = false; size_t n = 0;
                for (node_ptr x = d; x && n < walk_bound; x = x->my_next.a.load(), ++n) {
                    if (x->order_key() > mon_regular(h)) break;
                    if (!x->is_dummy() && (const void*)static_cast<value_node_ptr>(x)->storage() == fin_addrs[i]) { found = true; break; }
                }
                if (!found) { fail("element " + std::to_string(fin[i]) + " is not reachable from the entry point of bucket " + std::to_string(b) + " (table size " + std::to_string(sz) + ")"); break; }
            }
        }
        collect_names();
        teardown();
        }, "quiescent lookups/traversal/clear()/destructor");
    if (node_lines.empty()) collect_names();

    if (!observations.empty()) g_obs_runs++;
    bool ok = err.empty() && !rr.deadlock;
    g_last_fired = fc.fired;
    if (fc.fired && fc.what >= 0) g_fired_by[fc.what]++;
    if (print == 1 || !ok || (print == 2 && focus_cas_failed) || (print == 3 && fc.fired)) {
        printf("run %d\n", run_idx);
        for (auto& l : node_lines) printf("%s\n", l.c_str());
        auto vname = [&](const std::string& v, uint64_t x) -> std::string {
            if (v[0] == 'n' || v.compare(0, 4, "slot") == 0) { if (!x) return "nil"; auto it = val.find(x); return it == val.end() ? "?" + std::to_string(x) : it->second; }
            if (v.compare(0, 3, "seg") == 0) return x ? "p" : "nil";
            return std::to_string(x);
        };
        for (auto& e : rr.log) {
            if (e.kind == verif::K_NOTE) {
                if (e.tag[0] == 'g') continue;                      // happens-before ghosts
                if (e.tag[0] == 'x') printf("x %d %s %llu\n", e.tid, F_NAMES[e.a < F_N ? e.a : 0], (unsigned long long)e.b);
                else printf("o %d %s %llu\n", e.tid, e.tag, (unsigned long long)e.a);
                continue;
            }
            if (e.kind > verif::K_FXOR) continue;
            auto it = var.find(e.addr);
            std::string v = it == var.end() ? "anon" : it->second;
            printf("e %d %s %s %s %s %d %s\n", e.tid, verif::kind_name(e.kind), v.c_str(), vname(v, e.a).c_str(), vname(v, e.b).c_str(), e.ok, verif::order_name(e.order));
        }
        for (size_t t = 0; t < T_n; ++t) for (size_t i = 0; i < res[t].size(); ++i) {
            printf("res %zu %zu %s %llu", t, i, res[t][i].name.c_str(), (unsigned long long)res[t][i].key);
            for (auto v : res[t][i].vals) printf(" %llu", (unsigned long long)v);
            printf("\n");
        }
        for (size_t t = 0; t < T_n; ++t) for (size_t i = 0; i < fc.calls[t].size(); ++i) {
            bool any = false; for (int f = 0; f < F_N; ++f) if (fc.calls[t][i].n[f]) any = true;
            if (!any) continue;
            printf("calls %zu %zu", t, i); for (int f = 0; f < F_N; ++f) if (fc.calls[t][i].n[f]) printf(" %s=%ld", F_NAMES[f], fc.calls[t][i].n[f]); printf("\n");
        }
        if (fc.tid >= 0) printf("fault %d %d %s %ld %d\n", fc.tid, fc.op, F_NAMES[fc.what], fc.k, fc.fired ? 1 : 0);
        printf("%s\n", dead_line.c_str());
        printf("fin"); for (auto k : fin) printf(" %llu", (unsigned long long)k); printf("\n");
        printf("bcfin %zu\n", bcfin);
        for (auto& ob : observations) printf("obs %s\n", ob.c_str());
        printf("mon %s%s\n", err.empty() ? (rr.deadlock ? "DEADLOCK" : "ok") : "VIOLATION ", err.c_str());
        printf("sched"); for (int s : rr.schedule) printf(" %d", s); printf("\nend\n");
        fflush(stdout);
    }
    if (rr.deadlock) { fflush(stdout); _exit(3); }
    return ok;
}

struct FaultPos { int tid, op, what; long k; };
// every (thread, operation, functor, k) with k <= the number of calls the operation made in the run that has just finished
static std::vector<FaultPos> fault_positions(int only_tid, long cap) {
    std::vector<FaultPos> all;
    FaultCtl& fc = fctl();
    for (size_t t = 0; t < fc.calls.size(); ++t) {
        if (only_tid >= 0 && (int)t != only_tid) continue;
        for (size_t i = 0; i < fc.calls[t].size(); ++i) for (int f = 0; f < F_N; ++f)
            for (long k = 1; k <= fc.calls[t][i].n[f]; ++k) all.push_back({(int)t, (int)i, f, k});
    }
    if (cap > 0 && (long)all.size() > cap) {      // evenly spaced sample that keeps the first and the last position
        std::vector<FaultPos> s;
        for (long j = 0; j < cap; ++j) s.push_back(all[(size_t)((double)j * (all.size() - 1) / (cap - 1) + 0.5)]);
        return s;
    }
    return all;
}

// which of the n fault runs of one base schedule are printed (for the replay on the Lean model): `printcap` of them, evenly
// spread, the offset rotating with the base schedule so that all functor kinds and call positions get printed over time
static bool print_pick(size_t fi, size_t n, long printcap, size_t rot) {
    if (printcap <= 0 || n == 0) return false;
    if ((size_t)printcap >= n) return true;
    for (long j = 0; j < printcap; ++j) if ((j * n / printcap + rot) % n == fi) return true;
    return false;
}

template <class C> static int drive(int argc, char** argv) {
    std::string mode = argv[1];
    long maxruns = argc > 3 ? atol(argv[3]) : 1;
    long cap = argc > 4 ? atol(argv[4]) : 0, printcap = argc > 5 ? atol(argv[5]) : 0;
    long runs = 0, bad = 0, fired = 0;
    FaultCtl& fc = fctl();
    if (g_sc.f_tid >= 0) fc.arm(g_sc.f_tid, g_sc.f_op, g_sc.f_what, g_sc.f_k);
    if (mode == "rand") {
        unsigned long long seed = strtoull(argv[2], 0, 10);
        for (long i = 0; i < maxruns; ++i) { verif::RandomSchedule s(seed * 7919 + i, 32 + (int)(i % 4) * 56); if (!run_once<C>(s, (int)i, 1)) bad++; runs++; }
    } else if (mode == "frand") {
        unsigned long long seed = strtoull(argv[2], 0, 10);
        for (long i = 0; i < maxruns && !bad; ++i) {
            fc.disarm();
            { verif::RandomSchedule s(seed * 7919 + i, 32 + (int)(i % 4) * 56); if (!run_once<C>(s, (int)runs, 1)) { bad++; break; } runs++; }
            auto fps = fault_positions(-1, cap);
            for (size_t fi = 0; fi < fps.size(); ++fi) {
                auto& fp = fps[fi];
                fc.arm(fp.tid, fp.op, fp.what, fp.k);
                verif::RandomSchedule s(seed * 7919 + i, 32 + (int)(i % 4) * 56);
                bool ok = run_once<C>(s, (int)runs, print_pick(fi, fps.size(), printcap, (size_t)(i + seed)) ? 3 : 0);
                runs++; if (g_last_fired) fired++;
                if (!ok) { bad++; break; }
            }
        }
    } else if (mode == "dfs") {
        verif::DfsSchedule d(atoi(argv[2]));
        FairSchedule f(d);
        do { d.pos = 0; d.preempts = 0; f.reset(); g_fair = &f; if (!run_once<C>(f, (int)runs, 0)) { bad++; break; } runs++; } while (runs < maxruns && d.next());
    } else if (mode == "guide") {
        GuideSchedule g; g.segs = GuideSchedule::parse(argv[2]); g.ops_done = &g_ops_done;
        FairSchedule f(g); g_fair = &f;
        if (!run_once<C>(f, 0, 1)) bad++; runs++;
    } else if (mode == "sweep" || mode == "fsweep") {
        bool faults = mode == "fsweep";
        int H = atoi(argv[2]); g_focus = H;
        std::vector<int> others; for (size_t t = 0; t < g_sc.progs.size(); ++t) if ((int)t != H) others.push_back((int)t);
        // every ordered selection of 1..n of the other threads
        std::vector<std::vector<int>> orders;
        std::function<void(std::vector<int>&)> gen = [&](std::vector<int>& cur) {
            if (!cur.empty()) orders.push_back(cur);
            for (int t : others) { bool used = false; for (int u : cur) if (u == t) used = true; if (used) continue; cur.push_back(t); gen(cur); cur.pop_back(); }
        };
        std::vector<int> cur0; gen(cur0);
        bool stop = false;
        for (long j = 1; j < 2000 && !stop && !bad; ++j) {
            for (auto& ord : orders) {
                if (runs >= maxruns) { stop = true; break; }
                auto guided = [&](int pr) {
                    GuideSchedule g; g.ops_done = &g_ops_done;
                    g.segs.push_back({H, '*', j});
                    for (int t : ord) g.segs.push_back({t, '!', 0});
                    g.segs.push_back({H, '!', 0});
                    FairSchedule f(g); g_fair = &f;
                    bool ok = run_once<C>(f, (int)runs, pr);
                    runs++;
                    if (g.first_short) stop = true;       // H finished within j picks: every hold point has been visited
                    return ok;
                };
                fc.disarm();
                if (!guided(!faults && cap == 1 ? 1 : 2)) { bad++; break; }      // `sweep H maxruns 1`: print every run
                if (!faults) continue;
                bool stop_clean = stop;
                auto fps = fault_positions(H, cap);
                for (size_t fi = 0; fi < fps.size(); ++fi) {
                    auto& fp = fps[fi];
                    fc.arm(fp.tid, fp.op, fp.what, fp.k);
                    bool ok = guided(print_pick(fi, fps.size(), printcap, (size_t)(j * 7 + runs)) ? 3 : 0);
                    if (g_last_fired) fired++;
                    if (!ok) { bad++; break; }
                }
                stop = stop_clean;
                if (bad) break;
            }
        }
    } else if (mode == "replay") {
        verif::ReplaySchedule s; s.tids = strcmp(argv[2], "-") ? parse_sched(argv[2]) : g_sc.sched;
        FairSchedule f(s); g_fair = &f;
        if (!run_once<C>(f, 0, 1)) bad++; runs++;
    }
    printf("summary runs=%ld bad=%ld obs=%ld fired=%ld postlink=%ld leaks=%ld byf", runs, bad, g_obs_runs, fired, g_postlink, g_leaks);
    for (int f = 0; f < F_N; ++f) printf(" %s=%ld", F_NAMES[f], g_fired_by[f]);
    printf("\n");
    return bad ? 1 : 0;
}

int main(int argc, char** argv) {
    if (argc < 3) return 2;
    g_sc = read_scenario(stdin);
    if (g_sc.kind == "uset") return drive<USet>(argc, argv);
    if (g_sc.kind == "umset") return drive<UMSet>(argc, argv);
    if (g_sc.kind == "umap") return drive<UMap>(argc, argv);
    if (g_sc.kind == "ummap") return drive<UMMap>(argc, argv);
    fprintf(stderr, "unknown kind\n");
    return 2;
}
