// C12 E-REAL life-cycle harness: the 8 containers built with STATEFUL functors (a comparator with a direction flag; a hasher with a salt
// and a key_equal with a modulus) and stateful allocators, taken through copy / move construction, copy / move assignment (equal,
// unequal-non-propagating and propagating allocators), swap and clear, each followed by the property's checks ON THE RESULT:
//   * the functors the container now reports (key_comp / hash_function / key_eq) are the source's, and they are the ones it USES:
//     ordered containers iterate in the order of the reported comparator, a unique container holds no two keys equivalent under the reported
//     equivalence, every key of the expected contents is found, re-inserting a present key of a unique container fails;
//   * the contents are exactly the source's (as a multiset of keys); the source of a copy is unchanged; a moved-from source is usable;
//   * then 4 threads insert a mix of present and absent keys concurrently: exactly one success per absent key (unique containers),
//     find-after-insert, final size = number of elements on a traversal = expected, order / uniqueness again.
// usage: life <kind oset|omset|omap|ommap|uset|umset|umap|ummap> <op> <seed>      prints `ok ...` or `VIOLATION ...` lines; exit 0/1
//   op: copyctor movector copyassign moveassign-eq moveassign-neq moveassign-pocma swap swap-pocma clear-reuse merge merge-rvalue
#include <oneapi/tbb/concurrent_set.h>
#include <oneapi/tbb/concurrent_map.h>
#include <oneapi/tbb/concurrent_unordered_set.h>
#include <oneapi/tbb/concurrent_unordered_map.h>
#include <algorithm>
#include <atomic>
#include <cstdint>
#include <cstdio>
#include <cstdlib>
#include <map>
#include <set>
#include <string>
#include <thread>
#include <vector>
#include <type_traits>

typedef long Key;
static int g_viol = 0;
static void violation(const std::string& s) { printf("VIOLATION %s\n", s.c_str()); g_viol++; }

// --- stateful functors ---------------------------------------------------------------------------------------------------------
struct DirCmp {                       // ascending or descending
    bool desc = false;
    DirCmp() {}
    explicit DirCmp(bool d) : desc(d) {}
    bool operator()(Key a, Key b) const { return desc ? b < a : a < b; }
};
struct SaltHash {                     // consistent with ModEq of the same modulus
    size_t salt = 0; Key mod = 0;
    SaltHash() {}
    SaltHash(size_t s, Key m) : salt(s), mod(m) {}
    size_t operator()(Key k) const { Key c = mod ? k % mod : k; return (size_t)c * 0x9E3779B97F4A7C15ull + salt; }
};
struct ModEq {                        // keys are equivalent when they agree modulo `mod` (mod 0: identity)
    Key mod = 0;
    ModEq() {}
    explicit ModEq(Key m) : mod(m) {}
    bool operator()(Key a, Key b) const { return mod ? a % mod == b % mod : a == b; }
};
template <class T, bool POCMA> struct TagAlloc {
    typedef T value_type;
    typedef std::integral_constant<bool, POCMA> propagate_on_container_move_assignment;
    typedef std::integral_constant<bool, POCMA> propagate_on_container_swap;
    typedef std::false_type is_always_equal;
    int id = 0;
    TagAlloc() {}
    explicit TagAlloc(int i) : id(i) {}
    template <class U> TagAlloc(const TagAlloc<U, POCMA>& o) : id(o.id) {}
    template <class U> struct rebind { typedef TagAlloc<U, POCMA> other; };
    T* allocate(size_t n) { return static_cast<T*>(::operator new(n * sizeof(T))); }
    void deallocate(T* p, size_t) { ::operator delete(p); }
    template <class U> bool operator==(const TagAlloc<U, POCMA>& o) const { return id == o.id; }
    template <class U> bool operator!=(const TagAlloc<U, POCMA>& o) const { return id != o.id; }
};

// --- per-kind traits --------------------------------------------------------------------------------------------------------------
struct Fx { bool desc; size_t salt; Key mod; };          // functor state of one container
template <class C, class = void> struct IsOrdered : std::false_type {};
template <class C> struct IsOrdered<C, decltype(void(std::declval<const C&>().key_comp()))> : std::true_type {};
template <class C, bool MULTI> struct Tr {
    static constexpr bool ordered = IsOrdered<C>::value, multi = MULTI, map = !std::is_same<typename C::key_type, typename C::value_type>::value;
    typedef std::integral_constant<bool, ordered> ord_t;
    static C make_(const Fx& f, int aid, std::true_type) { return C(DirCmp(f.desc), typename C::allocator_type(aid)); }
    static C make_(const Fx& f, int aid, std::false_type) { return C(8, SaltHash(f.salt, f.mod), ModEq(f.mod), typename C::allocator_type(aid)); }
    static C make(const Fx& f, int aid) { return make_(f, aid, ord_t()); }
    static Fx fx_(const C& c, std::true_type) { return Fx{c.key_comp().desc, 0, 0}; }
    static Fx fx_(const C& c, std::false_type) { return Fx{false, c.hash_function().salt, c.key_eq().mod}; }
    static Fx fx(const C& c) { return fx_(c, ord_t()); }
    static bool ins_(C& c, Key k, std::false_type) { return c.insert(k).second; }
    static bool ins_(C& c, Key k, std::true_type) { return c.insert(std::make_pair(k, k * 7)).second; }
    static bool ins(C& c, Key k) { return ins_(c, k, std::integral_constant<bool, map>()); }
};

static Key key_of(Key k) { return k; }
static Key key_of(const std::pair<const Key, long>& p) { return p.first; }
// equivalence class representative of a key under the functor state (ordered: identity)
static Key cls(const Fx& f, Key k, bool ordered) { return (!ordered && f.mod) ? k % f.mod : k; }

struct Expect { std::multiset<Key> keys; };          // what the container must hold (one key per class for unique containers: the first inserted)

template <class C, bool MULTI> static void fill(C& c, Expect& e, const Fx& f, const std::vector<Key>& ks) {
    typedef Tr<C, MULTI> T;
    std::set<Key> seen;
    for (Key k : e.keys) seen.insert(cls(f, k, T::ordered));
    for (Key k : ks) {
        bool fresh = seen.insert(cls(f, k, T::ordered)).second;
        bool ok = T::ins(c, k);
        if (T::multi) { if (!ok) violation("insert into a multi container reported failure"); e.keys.insert(k); }
        else { if (ok != fresh) violation("sequential insert of key " + std::to_string(k) + " returned " + std::to_string(ok) + ", expected " + std::to_string(fresh)); if (fresh) e.keys.insert(k); }
    }
}

template <class C, bool MULTI> static void check(const char* what, C& c, const Expect& e, const Fx& want) {
    typedef Tr<C, MULTI> T;
    std::string w = what;
    Fx got = T::fx(c);
    if (T::ordered ? got.desc != want.desc : (got.salt != want.salt || got.mod != want.mod))
        violation(w + ": the container does not report the expected functors (comparator direction / hasher salt / key_equal modulus)");
    // traversal
    std::vector<Key> tv;
    size_t steps = 0;
    for (auto it = c.begin(); it != c.end(); ++it) { tv.push_back(key_of(*it)); if (++steps > e.keys.size() + 100000) { violation(w + ": traversal does not terminate"); break; } }
    std::multiset<Key> got_keys(tv.begin(), tv.end());
    if (got_keys != e.keys) {
        violation(w + ": contents differ from the expected multiset of keys: " + std::to_string(tv.size()) + " elements on a traversal, " + std::to_string(e.keys.size()) + " expected");
    }
    if (c.size() != tv.size()) violation(w + ": size() = " + std::to_string(c.size()) + " but a traversal sees " + std::to_string(tv.size()) + " elements");
    if (T::ordered) {
        DirCmp cmp(got.desc);       // the order of the comparator the container REPORTS
        for (size_t i = 1; i < tv.size(); ++i)
            if (cmp(tv[i], tv[i - 1])) { violation(w + ": iteration is not in the order of the container's own comparator (keys " + std::to_string(tv[i - 1]) + ", " + std::to_string(tv[i]) + ")"); break; }
    }
    if (!T::multi) {
        std::set<Key> classes;
        for (Key k : tv) if (!classes.insert(cls(got, k, T::ordered)).second) { violation(w + ": a unique container holds two equivalent keys (class of " + std::to_string(k) + ")"); break; }
    }
    for (Key k : e.keys) {
        if (c.find(k) == c.end()) { violation(w + ": key " + std::to_string(k) + " of the contents is not found"); break; }
        if (c.count(k) < 1) { violation(w + ": count(" + std::to_string(k) + ") = 0 for a present key"); break; }
    }
    if (!T::multi) {
        size_t before = c.size(); int tries = 0;
        for (Key k : e.keys) { if (T::ins(c, k)) { violation(w + ": inserting the present key " + std::to_string(k) + " into a unique container succeeded"); break; } if (++tries >= 50) break; }
        if (c.size() != before) violation(w + ": size() changed by failed inserts");
    }
}

// concurrent phase on the result: present + absent keys from 4 threads
template <class C, bool MULTI> static void hammer(const char* what, C& c, Expect& e, unsigned seed) {
    typedef Tr<C, MULTI> T;
    std::string w = std::string(what) + " + concurrent inserts";
    Fx f = T::fx(c);
    std::vector<Key> absent, present(e.keys.begin(), e.keys.end());
    std::set<Key> classes;
    for (Key k : e.keys) classes.insert(cls(f, k, T::ordered));
    for (Key k = 100000 + (Key)(seed % 7); absent.size() < 300 && k < 130000; k += 3) if (classes.insert(cls(f, k, T::ordered)).second) absent.push_back(k);   // (fewer when the key_equal has few classes left)
    std::vector<std::atomic<int>> wins(absent.size() + 1);
    for (auto& x : wins) x = 0;
    std::atomic<int> bad_present{0}, bad_find{0};
    std::vector<std::thread> th;
    for (int t = 0; t < 4; ++t) th.emplace_back([&, t] {
        for (size_t i = 0; i < absent.size(); ++i) {
            size_t j = (i + (size_t)t * 13) % absent.size();            // every thread inserts every absent key, each starting elsewhere
            if (T::ins(c, absent[j])) wins[j]++;
            if (c.find(absent[j]) == c.end()) bad_find++;
            if (!present.empty() && !T::multi && (i % 3 == 0) && T::ins(c, present[(i + t) % present.size()])) bad_present++;
        }
    });
    for (auto& x : th) x.join();
    if (bad_find) violation(w + ": find-after-insert failed " + std::to_string(bad_find.load()) + " times");
    if (bad_present) violation(w + ": a present key was inserted again into a unique container " + std::to_string(bad_present.load()) + " times");
    for (size_t j = 0; j < absent.size(); ++j) {
        int n = wins[j];
        if (T::multi ? n != 4 : n != 1) { violation(w + ": " + std::to_string(n) + " concurrent inserts of the absent key " + std::to_string(absent[j]) + " reported success"); break; }
        for (int r = 0; r < (T::multi ? 4 : 1); ++r) e.keys.insert(absent[j]);
    }
    check<C, MULTI>(w.c_str(), c, e, f);
}

template <class CE, class CP, bool MULTI> static void scenario(const std::string& op, unsigned seed) {
    // CE: allocator does not propagate on move assignment / swap; CP: it does
    typedef Tr<CE, MULTI> T; typedef Tr<CP, MULTI> TP;
    Fx fa{false, 11, 0}, fb{true, 977, T::ordered ? 0 : 1024};          // two different functor states
    if (seed & 1) std::swap(fa, fb);
    std::vector<Key> ka, kb;
    for (Key k = 0; k < 400; ++k) { ka.push_back((k * 37 + seed) % 1000); kb.push_back((k * 91 + 5 * seed) % 1500 + 200); }
#define FILL(c, e, f, k) fill<typename std::decay<decltype(c)>::type, MULTI>(c, e, f, k)
#define CHECK(w, c, e, f) check<typename std::decay<decltype(c)>::type, MULTI>(w, c, e, f)
#define HAMMER(w, c, e, s) hammer<typename std::decay<decltype(c)>::type, MULTI>(w, c, e, s)
    if (op == "moveassign-pocma" || op == "swap-pocma") {
        CP a = TP::make(fa, 1), b = TP::make(fb, 2);
        Expect ea, eb; FILL(a, ea, fa, ka); FILL(b, eb, fb, kb);
        if (op == "moveassign-pocma") { b = std::move(a); CHECK("move assignment (propagating allocator)", b, ea, fa); HAMMER("move assignment (propagating allocator)", b, ea, seed);
                                        Expect e0; a.clear(); CHECK("moved-from container after clear()", a, e0, TP::fx(a)); HAMMER("moved-from container", a, e0, seed); }
        else { a.swap(b); CHECK("swap: first", a, eb, fb); CHECK("swap: second", b, ea, fa); HAMMER("swap: first", a, eb, seed); HAMMER("swap: second", b, ea, seed + 1); }
        return;
    }
    int ida = 1, idb = (op == "moveassign-neq") ? 2 : 1;
    CE a = T::make(fa, ida), b = T::make(fb, idb);
    Expect ea, eb; FILL(a, ea, fa, ka); FILL(b, eb, fb, kb);
    CHECK("source after fill", a, ea, fa); CHECK("destination after fill", b, eb, fb);
    if (op == "copyctor") { CE c(a); CHECK("copy construction", c, ea, fa); CHECK("source of the copy", a, ea, fa); HAMMER("copy construction", c, ea, seed); }
    else if (op == "movector") { CE c(std::move(a)); CHECK("move construction", c, ea, fa); HAMMER("move construction", c, ea, seed); }
    else if (op == "copyassign") { b = a; CHECK("copy assignment", b, ea, fa); CHECK("source of the copy assignment", a, ea, fa); Expect e2 = ea; HAMMER("copy assignment", b, ea, seed); HAMMER("source of the copy assignment", a, e2, seed + 3); }
    else if (op == "moveassign-eq") { b = std::move(a); CHECK("move assignment (equal allocators)", b, ea, fa); HAMMER("move assignment (equal allocators)", b, ea, seed); }
    else if (op == "moveassign-neq") { b = std::move(a); CHECK("move assignment (unequal, non-propagating allocators: element-wise)", b, ea, fa); HAMMER("move assignment (unequal allocators)", b, ea, seed);
                                       Expect e0; a.clear(); CHECK("moved-from container after clear()", a, e0, T::fx(a)); HAMMER("moved-from container", a, e0, seed); }
    else if (op == "swap") { a.swap(b); CHECK("swap: first", a, eb, fb); CHECK("swap: second", b, ea, fa); HAMMER("swap: first", a, eb, seed); HAMMER("swap: second", b, ea, seed + 1); }
    else if (op == "merge" || op == "merge-rvalue") {
        // merge from a source of the SAME type whose functors are in a different state: the merged elements must be placed by the destination's
        // functors (order / hash / equivalence); what the destination refuses (unique containers: an equivalent key is present) stays in the source
        if (op == "merge") a.merge(b); else a.merge(std::move(b));
        // which of several source keys of one class is taken depends on the source's iteration order: the expectations are stated on what is there
        Expect ea2, eb2;
        for (auto it = a.begin(); it != a.end(); ++it) ea2.keys.insert(key_of(*it));
        for (auto it = b.begin(); it != b.end(); ++it) eb2.keys.insert(key_of(*it));
        std::multiset<Key> all_before(ea.keys), all_after(ea2.keys);
        all_before.insert(eb.keys.begin(), eb.keys.end()); all_after.insert(eb2.keys.begin(), eb2.keys.end());
        if (all_before != all_after) violation("merge(): the elements of destination and source together are not what they were before (lost or duplicated)");
        for (Key k : ea.keys) if (!ea2.keys.count(k)) { violation("merge(): the destination lost its own key " + std::to_string(k)); break; }
        std::set<Key> classes;
        for (Key k : ea2.keys) classes.insert(cls(fa, k, T::ordered));
        if (MULTI) { if (!eb2.keys.empty()) violation("merge() into a multi container left " + std::to_string(eb2.keys.size()) + " elements in the source"); }
        else for (Key k : eb2.keys) if (!classes.count(cls(fa, k, T::ordered))) { violation("merge(): key " + std::to_string(k) + " stayed in the source although the destination holds no equivalent key"); break; }
        CHECK("destination of merge()", a, ea2, fa); CHECK("source of merge()", b, eb2, fb);
        HAMMER("destination of merge()", a, ea2, seed); HAMMER("source of merge()", b, eb2, seed + 5);
    }
    else if (op == "clear-reuse") { a.clear(); Expect e0; CHECK("after clear()", a, e0, fa); FILL(a, e0, fa, kb); CHECK("refilled after clear()", a, e0, fa); HAMMER("refilled after clear()", a, e0, seed); }
}

template <bool P> struct Types {
    typedef std::pair<const Key, long> KV;
    typedef TagAlloc<Key, P> AK; typedef TagAlloc<KV, P> AV;
    typedef tbb::concurrent_set<Key, DirCmp, AK> oset;
    typedef tbb::concurrent_multiset<Key, DirCmp, AK> omset;
    typedef tbb::concurrent_map<Key, long, DirCmp, AV> omap;
    typedef tbb::concurrent_multimap<Key, long, DirCmp, AV> ommap;
    typedef tbb::concurrent_unordered_set<Key, SaltHash, ModEq, AK> uset;
    typedef tbb::concurrent_unordered_multiset<Key, SaltHash, ModEq, AK> umset;
    typedef tbb::concurrent_unordered_map<Key, long, SaltHash, ModEq, AV> umap;
    typedef tbb::concurrent_unordered_multimap<Key, long, SaltHash, ModEq, AV> ummap;
};
#define KIND(NAME, MULTI) if (kind == #NAME) { scenario<Types<false>::NAME, Types<true>::NAME, MULTI>(op, seed); done = true; }
int main(int argc, char** argv) {
    if (argc < 4) return 2;
    std::string kind = argv[1], op = argv[2];
    unsigned seed = (unsigned)strtoul(argv[3], nullptr, 10);
    bool done = false;
    KIND(oset, false) KIND(omset, true) KIND(omap, false) KIND(ommap, true)
    KIND(uset, false) KIND(umset, true) KIND(umap, false) KIND(ummap, true)
    if (!done) { printf("bad-kind\n"); return 2; }
    printf("%s %s %s seed=%u violations=%d\n", g_viol ? "failed" : "ok", kind.c_str(), op.c_str(), seed, g_viol);
    return g_viol ? 1 : 0;
}
