// C14 (a) E-SHIM harness: the REAL limiter_node<int> (+ reservable_predecessor_cache, broadcast_cache, spin_mutex)
// with real threads under the controlled scheduler: every atomic access (each spin_mutex acquisition in particular) is
// a scheduling point, so the forward attempts interleave at every boundary between the mutex-protected sections.
// Stub senders and a stub successor (each with one extra scheduling point inside try_reserve / try_put_task) play the
// rest of the graph; a mock r1 collects the spawned forward tasks in a pool that the threads drain.
// Threads: T0 puts the senders into pull mode and drains the pool; T1 sends decrement messages (each one a forward
// attempt on the caller's stack) and drains; T2.. drain and push through the push path.
// Implementation-side monitors (no model): a sender's try_release / try_consume must come from the thread whose
// try_reserve succeeded; every item is accepted by the successor at most once; consumed iff accepted; at the end nothing
// is reserved and arrived = consumed + remaining, per sender.
// usage: limshim rand <seed0> <nseeds> <threads> <threshold> <senders> <items>    |    limshim replay <same…> <tid tid …>
#include <oneapi/tbb/flow_graph.h>
#include <cstdio>
#include <cstdlib>
#include <cstring>
#include <deque>
#include <memory>
#include <string>
#include <vector>

using namespace tbb::flow;
namespace d1 = tbb::detail::d1;
namespace d2 = tbb::detail::d2;

static std::vector<d1::task*> g_pool;
static std::atomic<int> g_point{0};               // an extra scheduling point inside the stubs' call-outs

namespace tbb { namespace detail { namespace r1 {
void* __TBB_EXPORTED_FUNC allocate(d1::small_object_pool*& pool, std::size_t bytes) {
    pool = reinterpret_cast<d1::small_object_pool*>(std::uintptr_t(0x10));
    return std::malloc(bytes);
}
void* __TBB_EXPORTED_FUNC allocate(d1::small_object_pool*& pool, std::size_t bytes, const d1::execution_data&) { return allocate(pool, bytes); }
void __TBB_EXPORTED_FUNC deallocate(d1::small_object_pool&, void* ptr, std::size_t) { std::free(ptr); }
void __TBB_EXPORTED_FUNC deallocate(d1::small_object_pool& p, void* ptr, std::size_t n, const d1::execution_data&) { deallocate(p, ptr, n); }
void __TBB_EXPORTED_FUNC initialize(d1::task_arena_base&) {}
void __TBB_EXPORTED_FUNC terminate(d1::task_arena_base&) {}
bool __TBB_EXPORTED_FUNC attach(d1::task_arena_base&) { return true; }
void __TBB_EXPORTED_FUNC execute(d1::task_arena_base&, d1::delegate_base& d) { d(); }
d1::slot_id __TBB_EXPORTED_FUNC execution_slot(const d1::task_arena_base&) { return 0; }
void __TBB_EXPORTED_FUNC initialize(d1::task_group_context&) {}
void __TBB_EXPORTED_FUNC destroy(d1::task_group_context&) {}
void __TBB_EXPORTED_FUNC reset(d1::task_group_context&) {}
bool __TBB_EXPORTED_FUNC cancel_group_execution(d1::task_group_context&) { return false; }
bool __TBB_EXPORTED_FUNC is_group_execution_cancelled(d1::task_group_context&) { return false; }
void __TBB_EXPORTED_FUNC submit(d1::task& t, d1::task_group_context&, arena*, std::uintptr_t) { g_pool.push_back(&t); }
void __TBB_EXPORTED_FUNC wait(d1::wait_context&, d1::task_group_context&) {}
void __TBB_EXPORTED_FUNC notify_waiters(std::uintptr_t) {}
d1::wait_tree_vertex_interface* get_thread_reference_vertex(d1::wait_tree_vertex_interface* top) { return top; }
}}}

static std::string g_err;
static void viol(const std::string& s) { if (g_err.empty()) g_err = "VIOLATION " + s; }
static std::string S(long long x) { return std::to_string(x); }

struct StubSender : sender<int> {
    int id; std::deque<int> items; bool reserved = false; int owner = -1; std::vector<int> consumed; int arrived = 0;
    explicit StubSender(int i) : id(i) {}
    bool try_reserve(int& v) override {
        (void)g_point.load();
        if (reserved || items.empty()) return false;
        v = items.front(); reserved = true; owner = verif::self();
        return true;
    }
    bool try_release() override {
        if (!reserved) viol("reservation-not-owner: try_release on sender " + S(id) + " that holds no reservation (thread " + S(verif::self()) + ")");
        else if (owner != verif::self()) viol("reservation-not-owner: thread " + S(verif::self()) + " released the reservation that thread " + S(owner) + " holds on sender " + S(id));
        reserved = false; owner = -1; return true;
    }
    bool try_consume() override {
        if (!reserved || items.empty()) viol("reservation-not-owner: try_consume on sender " + S(id) + " that holds no reservation (thread " + S(verif::self()) + ")");
        else if (owner != verif::self()) viol("reservation-not-owner: thread " + S(verif::self()) + " consumed the reservation that thread " + S(owner) + " holds on sender " + S(id));
        if (!items.empty()) { consumed.push_back(items.front()); items.pop_front(); }
        reserved = false; owner = -1; return true;
    }
#if __TBB_PREVIEW_FLOW_GRAPH_TRY_PUT_AND_WAIT
    bool try_reserve(int& v, d2::message_metainfo&) override { return try_reserve(v); }
#endif
    bool register_successor(receiver<int>&) override { return true; }
    bool remove_successor(receiver<int>&) override { return true; }
};

struct StubSink : receiver<int> {
    graph& g; std::vector<int> seen; std::vector<char> rejected; unsigned rejmod; int nitems;   // values >= nitems come through the push path (not tracked)
    StubSink(graph& g_, int n, unsigned r) : g(g_), seen(n, 0), rejected(n, 0), rejmod(r), nitems(n) {}
    d2::graph_task* try_put_task(const int& v) override {
        (void)g_point.load();
        if (rejmod && v >= 0 && v < nitems && (unsigned)v % rejmod == 0 && !rejected[v]) { rejected[v] = 1; return nullptr; }   // reject the first offer
        if (v >= 0 && v < nitems && ++seen[v] > 1) viol("duplicate-delivery: value " + S(v) + " was accepted by the successor " + S(seen[v]) + " times");
        return d2::SUCCESSFULLY_ENQUEUED;
    }
#if __TBB_PREVIEW_FLOW_GRAPH_TRY_PUT_AND_WAIT
    d2::graph_task* try_put_task(const int& v, const d2::message_metainfo&) override { return try_put_task(v); }
#endif
    graph& graph_reference() const override { return g; }
    bool register_predecessor(sender<int>&) override { return false; }
};

static bool run_one(verif::Schedule& sch, uint64_t seed, int T, int TH, int NS, int NI, bool print) {
    g_pool.clear(); g_err.clear(); g_point.store(0);
    std::unique_ptr<graph> g(new graph());
    std::unique_ptr<limiter_node<int>> lim(new limiter_node<int>(*g, (size_t)TH));
    std::vector<std::unique_ptr<StubSender>> snd;
    int total = NS * NI;
    for (int p = 0; p < NS; ++p) { snd.emplace_back(new StubSender(p)); for (int i = 0; i < NI; ++i) snd[p]->items.push_back(p * NI + i); snd[p]->arrived = NI; }
    StubSink sink(*g, total, (unsigned)(seed % 3 == 0 ? 3 : 0));
    make_edge(*lim, sink);
    auto drain = [&](int budget) {
        for (int k = 0; k < budget; ++k) {
            if (g_pool.empty()) return;
            d1::task* t = g_pool.front(); g_pool.erase(g_pool.begin());
            d1::execution_data ed{g->my_context, 0, 0};
            d1::task* next = t->execute(ed);
            if (next) g_pool.push_back(next);
        }
    };
    std::vector<std::function<void()>> bodies;
    bodies.push_back([&] {
        for (int p = 0; p < NS; ++p) tbb::detail::d2::register_predecessor(static_cast<receiver<int>&>(*lim), static_cast<sender<int>&>(*snd[p]));
        drain(4 * total + 8);
    });
    bodies.push_back([&] {
        for (int k = 0; k < total + 2; ++k) { lim->decrementer().try_put(continue_msg()); drain(2); }
        drain(4 * total + 8);
    });
    for (int t = 2; t < T; ++t) bodies.push_back([&, t] {
        for (int k = 0; k < total; ++k) {
            if (k % 3 == 0) static_cast<receiver<int>&>(*lim).try_put(total + t);     // push path (value outside the senders' range)
            drain(2);
        }
    });
    verif::Result r = verif::run(bodies, sch);
    if (r.deadlock && g_err.empty()) g_err = "VIOLATION deadlock: every thread is spinning (a lock was never released)";
    if (!r.deadlock && g_err.empty()) {
        // quiescent: finish what is pending single-threaded, with decrements so that the threshold does not hold items back
        for (int k = 0; k < 4 * total + 8 && g_err.empty(); ++k) { drain(8); bool left = false; for (auto& s : snd) left = left || !s->items.empty(); if (!left) break; lim->decrementer().try_put(continue_msg()); }
        for (auto& s : snd) {
            if (s->reserved) viol("reservation-leaked: sender " + S(s->id) + " is still reserved although no forward attempt is in progress");
            if ((int)(s->consumed.size() + s->items.size()) != s->arrived) viol("sender-conservation: sender " + S(s->id) + " arrived " + S(s->arrived) + " != consumed " + S((long long)s->consumed.size()) + " + remaining " + S((long long)s->items.size()));
            for (int v : s->consumed) if (sink.seen[v] != 1) viol("consumed-undelivered: item " + S(v) + " of sender " + S(s->id) + " was consumed but accepted " + S(sink.seen[v]) + " time(s)");
            for (int v : s->items) if (sink.seen[v] != 0) viol("delivered-unconsumed: item " + S(v) + " of sender " + S(s->id) + " was accepted by the successor but is still in its sender");
        }
    }
    bool ok = g_err.empty();
    if (print || !ok) {
        printf("run %llu steps=%zu\n", (unsigned long long)seed, r.steps);
        printf("mon %s\n", ok ? "ok" : g_err.c_str());
        printf("sched"); for (int s : r.schedule) printf(" %d", s); printf("\nend\n");
        fflush(stdout);
    }
    if (r.deadlock) { fflush(stdout); _exit(3); }
    // tear down
    g->my_context->my_cancellation_requested.store(1);
    d1::execution_data ed{g->my_context, 0, 0};
    for (auto* t : g_pool) t->cancel(ed);
    g_pool.clear();
    g->my_wait_context_vertex.m_wait.m_ref_count.store(0);
    lim.reset(); snd.clear();
    return ok;
}

int main(int argc, char** argv) {
    verif::init_determinism(argc, argv);
    if (argc < 8) return 2;
    std::string mode = argv[1];
    uint64_t seed0 = strtoull(argv[2], nullptr, 10);
    int nseeds = atoi(argv[3]), T = atoi(argv[4]), TH = atoi(argv[5]), NS = atoi(argv[6]), NI = atoi(argv[7]);
    if (T < 2 || T > 6 || NS < 1 || NS > 4 || NI < 1 || NI > 8) return 2;
    int bad = 0, runs = 0;
    if (mode == "replay") {
        verif::ReplaySchedule rs;
        for (int i = 8; i < argc; ++i) rs.tids.push_back(atoi(argv[i]));
        bool ok = run_one(rs, seed0, T, TH, NS, NI, true);
        return ok ? 0 : 1;
    }
    for (int i = 0; i < nseeds; ++i) {
        verif::RandomSchedule sch(seed0 + (uint64_t)i, 40 + (int)((seed0 + i) % 5) * 40);
        ++runs;
        if (!run_one(sch, seed0 + (uint64_t)i, T, TH, NS, NI, false)) { ++bad; if (bad >= 2) break; }
    }
    printf("done runs=%d bad=%d\n", runs, bad);
    return bad ? 1 : 0;
}
