// C14 (a) E-MOCK harness for the reservation protocol: the REAL limiter_node<int> (with its real
// reservable_predecessor_cache and broadcast_cache) between scripted senders and a scripted successor, and the REAL
// input_node<int> with a scripted successor and an external pulling / reserving successor — on a mock r1
// (no libtbb), single-threaded.  A *hook* armed on a sender's try_reserve or on the successor's try_put_task
// suspends the running operation INSIDE that call-out; the following script lines run nested inside the window
// (a second forward attempt from the decrementer / a pending forward task / register_predecessor; a second put
// task); `resume` continues the suspended operation.  Same line protocol as `drv_c14 c14res` / `c14inp`
// (lean/TbbVerif/Model/C14Res.lean, Part 3): one output line per input line.
//   limiter mode:  <res> | <events> | pend=<n> susp=<ops> | c=<count> t=<tries> f=<future> q=<preds> r=<reserved_src> | <senders>
//   input mode  :  <res> | <events> | pend=<n> susp=<ops> | a=<active> r=<reserved> h=<has item> i=<item>
// Events carry the id of the operation (forward attempt / put task) that made the call-out, so that the
// implementation-side monitors can check that only the reserver releases or consumes.
#include <oneapi/tbb/flow_graph.h>
#include <cstdio>
#include <cstdlib>
#include <cstring>
#include <deque>
#include <memory>
#include <sstream>
#include <string>
#include <vector>

using namespace tbb::flow;
namespace d1 = tbb::detail::d1;
namespace d2 = tbb::detail::d2;

// ---------------------------------------------------------------------------------------------------------
// mock runtime (as in mock.cpp)
// ---------------------------------------------------------------------------------------------------------
static std::vector<d1::task*> g_pool;               // pending tasks, oldest first

namespace tbb { namespace detail { namespace r1 {
void* __TBB_EXPORTED_FUNC allocate(d1::small_object_pool*& pool, std::size_t bytes) {
    pool = reinterpret_cast<d1::small_object_pool*>(std::uintptr_t(0x10));
    return std::malloc(bytes);
}
void* __TBB_EXPORTED_FUNC allocate(d1::small_object_pool*& pool, std::size_t bytes, const d1::execution_data&) { return allocate(pool, bytes); }
void __TBB_EXPORTED_FUNC deallocate(d1::small_object_pool&, void* ptr, std::size_t) { std::free(ptr); }
void __TBB_EXPORTED_FUNC deallocate(d1::small_object_pool& p, void* ptr, std::size_t n, const d1::execution_data&) { deallocate(p, ptr, n); }
void __TBB_EXPORTED_FUNC initialize(d1::task_arena_base&) {}
void __TBB_EXPORTED_FUNC terminate(d1::task_arena_base&) {}
bool __TBB_EXPORTED_FUNC attach(d1::task_arena_base&) { return true; }
void __TBB_EXPORTED_FUNC execute(d1::task_arena_base&, d1::delegate_base& d) { d(); }
d1::slot_id __TBB_EXPORTED_FUNC execution_slot(const d1::task_arena_base&) { return 0; }
void __TBB_EXPORTED_FUNC initialize(d1::task_group_context&) {}
void __TBB_EXPORTED_FUNC destroy(d1::task_group_context&) {}
void __TBB_EXPORTED_FUNC reset(d1::task_group_context& c) { c.my_cancellation_requested.store(0); }
bool __TBB_EXPORTED_FUNC cancel_group_execution(d1::task_group_context& c) { return c.my_cancellation_requested.exchange(1) == 0; }
bool __TBB_EXPORTED_FUNC is_group_execution_cancelled(d1::task_group_context& c) { return c.my_cancellation_requested.load() != 0; }
void __TBB_EXPORTED_FUNC submit(d1::task& t, d1::task_group_context&, arena*, std::uintptr_t) { g_pool.push_back(&t); }
void __TBB_EXPORTED_FUNC wait(d1::wait_context&, d1::task_group_context&) {}
void __TBB_EXPORTED_FUNC notify_waiters(std::uintptr_t) {}
d1::wait_tree_vertex_interface* get_thread_reference_vertex(d1::wait_tree_vertex_interface* top) { return top; }
}}}

// ---------------------------------------------------------------------------------------------------------
static std::vector<std::string> g_ev;
static std::vector<int> g_cur;                      // operations in progress, outermost first
static std::vector<int> g_susp;                     // suspended operations, outermost first
static int g_next_op = 0;
static std::deque<bool> g_answers;                  // oracle of the scripted successor (default: accept)
static std::vector<int> g_hooks_res;                // senders whose next try_reserve suspends
static int g_hooks_put = 0;
static std::string S(long long x) { return std::to_string(x); }
static void ev(const std::string& s) { g_ev.push_back(s); }
static int cur() { return g_cur.empty() ? -1 : g_cur.back(); }

struct Mode { virtual ~Mode() {} virtual std::string render(const std::string& res) = 0; virtual bool line(std::vector<std::string>& w) = 0; };
static Mode* g_mode = nullptr;
static void loop(bool nested);

static void out(const std::string& res) { puts(g_mode->render(res).c_str()); fflush(stdout); }

// suspend the current operation inside a call-out: print the line's output, run the nested lines, come back at `resume`
static void suspend() {
    g_susp.push_back(cur());
    out("susp");
    loop(true);
    g_susp.pop_back();
}

static std::string ids(const std::vector<int>& v, bool rev = false) {
    if (v.empty()) return "-";
    std::string s;
    if (rev) for (size_t i = v.size(); i-- > 0;) { if (!s.empty()) s += ","; s += S(v[i]); }
    else for (size_t i = 0; i < v.size(); ++i) { if (i) s += ","; s += S(v[i]); }
    return s;
}

// scripted reservable sender
struct StubSender : sender<int> {
    int id; std::deque<int> items; bool reserved = false; bool push_mode = false; int anomalies = 0;
    explicit StubSender(int i) : id(i) {}
    bool try_reserve(int& v) override {
        for (size_t i = 0; i < g_hooks_res.size(); ++i) if (g_hooks_res[i] == id) { g_hooks_res.erase(g_hooks_res.begin() + i); suspend(); break; }
        if (reserved || items.empty()) { ev("res" + S(cur()) + ":" + S(id) + ":-"); return false; }
        v = items.front(); reserved = true;
        ev("res" + S(cur()) + ":" + S(id) + ":" + S(v));
        return true;
    }
    bool try_release() override {
        if (!reserved) ++anomalies;
        reserved = false; ev("rel" + S(cur()) + ":" + S(id)); return true;
    }
    bool try_consume() override {
        if (!reserved || items.empty()) ++anomalies;
        reserved = false; if (!items.empty()) items.pop_front(); ev("con" + S(cur()) + ":" + S(id)); return true;
    }
#if __TBB_PREVIEW_FLOW_GRAPH_TRY_PUT_AND_WAIT
    bool try_reserve(int& v, d2::message_metainfo&) override { return try_reserve(v); }
#endif
    bool register_successor(receiver<int>&) override { push_mode = true; ev("rs" + S(cur()) + ":" + S(id)); return true; }
    bool remove_successor(receiver<int>&) override { push_mode = false; return true; }
};

// scripted successor: accepts / rejects by oracle; never takes the sender as a predecessor (stays in the push set)
struct StubSink : receiver<int> {
    graph& g; const char* tag;
    StubSink(graph& g_, const char* t) : g(g_), tag(t) {}
    d2::graph_task* try_put_task(const int& v) override {
        if (g_hooks_put > 0) { --g_hooks_put; suspend(); }
        bool acc = true;
        if (!g_answers.empty()) { acc = g_answers.front(); g_answers.pop_front(); }
        ev(std::string(tag) + S(cur()) + ":" + S(v) + ":" + (acc ? "a" : "r"));
        return acc ? d2::SUCCESSFULLY_ENQUEUED : nullptr;
    }
#if __TBB_PREVIEW_FLOW_GRAPH_TRY_PUT_AND_WAIT
    d2::graph_task* try_put_task(const int& v, const d2::message_metainfo&) override { return try_put_task(v); }
#endif
    graph& graph_reference() const override { return g; }
    bool register_predecessor(sender<int>&) override { return false; }
    bool remove_predecessor(sender<int>&) override { return true; }
};

static bool to_u(const std::string& s, unsigned long& out, unsigned long max) {
    if (s.empty() || s.size() > 9) return false;
    for (char c : s) if (c < '0' || c > '9') return false;
    out = strtoul(s.c_str(), nullptr, 10);
    return out <= max;
}

static void run_task(d1::task* t, graph& g) {
    d1::execution_data ed{g.my_context, 0, 0};
    d1::task* next = t->execute(ed);
    if (next) g_pool.push_back(next);
}

static void drain(graph& g) {
    g.my_context->my_cancellation_requested.store(1);
    d1::execution_data ed{g.my_context, 0, 0};
    for (size_t i = 0; i < g_pool.size(); ++i) g_pool[i]->cancel(ed);
    g_pool.clear();
    g.my_wait_context_vertex.m_wait.m_ref_count.store(0);
}

// ---------------------------------------------------------------------------------------------------------
// limiter mode
// ---------------------------------------------------------------------------------------------------------
struct LimMode : Mode {
    std::unique_ptr<graph> g{new graph()};
    std::unique_ptr<limiter_node<int>> lim;
    std::vector<std::unique_ptr<StubSender>> snd;
    std::unique_ptr<StubSink> sink;
    bool going = false;
    ~LimMode() { drain(*g); lim.reset(); sink.reset(); snd.clear(); g.reset(); }

    std::string render(const std::string& res) override {
        std::string e;
        if (g_ev.empty()) e = "-"; else for (size_t i = 0; i < g_ev.size(); ++i) { if (i) e += " "; e += g_ev[i]; }
        std::vector<int> q;
        {
            auto copy = lim->my_predecessors.my_q;
            while (!copy.empty()) { int id = -1; for (auto& s : snd) if (static_cast<sender<int>*>(s.get()) == copy.front()) id = s->id; q.push_back(id); copy.pop(); }
        }
        std::string r = "-";
        if (auto* p = lim->my_predecessors.reserved_src.load()) { for (auto& s : snd) if (static_cast<sender<int>*>(s.get()) == p) r = S(s->id); }
        std::string ss;
        for (size_t i = 0; i < snd.size(); ++i) {
            if (i) ss += " ; ";
            std::vector<int> it(snd[i]->items.begin(), snd[i]->items.end());
            ss += S(snd[i]->id) + ":" + ids(it) + (snd[i]->reserved ? "*" : "") + (snd[i]->push_mode ? "^" : "");
        }
        return res + " | " + e + " | pend=" + S((long long)g_pool.size()) + " susp=" + ids(g_susp, true) + " | c=" + S((long long)lim->my_count) +
               " t=" + S((long long)lim->my_tries) + " f=" + S((long long)lim->my_future_decrement) + " q=" + ids(q) + " r=" + r + " | " + ss;
    }

    bool line(std::vector<std::string>& w) override {
        unsigned long a = 0, b = 0;
        if (!going) {
            if (w[0] == "lim" && w.size() == 2 && to_u(w[1], a, 1000)) { lim.reset(new limiter_node<int>(*g, a)); puts("ok"); fflush(stdout); return true; }
            if (w[0] == "snd" && w.size() == 2 && to_u(w[1], a, 50) && a == snd.size()) { snd.emplace_back(new StubSender((int)a)); puts("ok"); fflush(stdout); return true; }
            if (w[0] == "go" && w.size() == 1) {
                if (!lim) lim.reset(new limiter_node<int>(*g, 0));
                sink.reset(new StubSink(*g, "put"));
                make_edge(*lim, *sink);
                going = true; out("ok"); return true;
            }
            return false;
        }
        if (w[0] == "sput" && w.size() == 3 && to_u(w[1], a, 1000) && a < snd.size() && to_u(w[2], b, 1000000)) { snd[a]->items.push_back((int)b); out("ok"); return true; }
        if (w[0] == "regpred" && w.size() == 2 && to_u(w[1], a, 1000) && a < snd.size()) {
            snd[a]->push_mode = false;
            tbb::detail::d2::register_predecessor(static_cast<receiver<int>&>(*lim), static_cast<sender<int>&>(*snd[a]));
            out("ok"); return true;
        }
        if (w[0] == "ans" && w.size() == 2 && (w[1] == "a" || w[1] == "r")) { g_answers.push_back(w[1] == "a"); out("ok"); return true; }
        if (w[0] == "hook" && w.size() == 3 && w[1] == "res" && to_u(w[2], a, 1000) && a < snd.size()) { g_hooks_res.push_back((int)a); out("ok"); return true; }
        // (no `hook put` here: my_successors.try_put_task runs under the successor cache's lock, which every other operation
        //  of the limiter needs for check_conditions(); nothing can run nested inside that call)
        if (w[0] == "dec" && w.size() == 1) {
            g_cur.push_back(g_next_op++);
            lim->decrementer().try_put(continue_msg());
            g_cur.pop_back();
            out("done"); return true;
        }
        if (w[0] == "run" && w.size() == 1 && !g_pool.empty()) {
            d1::task* t = g_pool.front(); g_pool.erase(g_pool.begin());
            g_cur.push_back(g_next_op++);
            run_task(t, *g);
            g_cur.pop_back();
            out("done"); return true;
        }
        if (w[0] == "put" && w.size() == 2 && to_u(w[1], a, 1000000)) {
            bool admitted = lim->my_count + lim->my_tries < lim->my_threshold;
            bool acc = admitted && (g_answers.empty() || g_answers.front());
            g_cur.push_back(-1);
            static_cast<receiver<int>&>(*lim).try_put((int)a);
            g_cur.pop_back();
            g_ev.clear();                            // the push path's offer is not an event of the reservation protocol
            out(acc ? "1" : "0"); return true;
        }
        return false;
    }
};

// ---------------------------------------------------------------------------------------------------------
// input_node mode
// ---------------------------------------------------------------------------------------------------------
struct IBody {
    int next; int stop;
    int operator()(tbb::flow_control& fc) {
        if (next >= stop) { fc.stop(); ev("Gstop"); return 0; }
        ev("G" + S(next));
        return next++;
    }
};

struct InpMode : Mode {
    std::unique_ptr<graph> g{new graph()};
    std::unique_ptr<input_node<int>> n;
    std::unique_ptr<StubSink> sink;
    bool going = false; bool xholds = false;
    ~InpMode() { drain(*g); n.reset(); sink.reset(); g.reset(); }

    std::string render(const std::string& res) override {
        std::string e;
        if (g_ev.empty()) e = "-"; else for (size_t i = 0; i < g_ev.size(); ++i) { if (i) e += " "; e += g_ev[i]; }
        return res + " | " + e + " | pend=" + S((long long)g_pool.size()) + " susp=" + ids(g_susp, true) + " | a=" + (n->my_active ? "1" : "0") +
               " r=" + (n->my_reserved ? "1" : "0") + " h=" + (n->my_has_cached_item ? "1" : "0") + " i=" + S(n->my_has_cached_item ? n->my_cached_item : 0);
    }

    bool line(std::vector<std::string>& w) override {
        unsigned long a = 0, b = 0;
        if (!going) {
            if (w[0] == "inp" && w.size() == 3 && to_u(w[1], a, 100000) && to_u(w[2], b, 100000)) {
                n.reset(new input_node<int>(*g, IBody{(int)a, (int)b})); puts("ok"); fflush(stdout); return true;
            }
            if (w[0] == "go" && w.size() == 1) {
                if (!n) n.reset(new input_node<int>(*g, IBody{0, 0}));
                sink.reset(new StubSink(*g, "O"));
                make_edge(*n, *sink);
                going = true; out("ok"); return true;
            }
            return false;
        }
        if (w[0] == "act" && w.size() == 1 && g_susp.empty()) { n->activate(); out("ok"); return true; }
        if (w[0] == "ans" && w.size() == 2 && (w[1] == "a" || w[1] == "r")) { g_answers.push_back(w[1] == "a"); out("ok"); return true; }
        if (w[0] == "hook" && w.size() == 2 && w[1] == "put") { ++g_hooks_put; out("ok"); return true; }
        if (w[0] == "run" && w.size() == 1 && !g_pool.empty()) {
            d1::task* t = g_pool.front(); g_pool.erase(g_pool.begin());
            g_cur.push_back(g_next_op++);
            run_task(t, *g);
            g_cur.pop_back();
            out("done"); return true;
        }
        if (w[0] == "xget" && w.size() == 1) {
            int v = 0; bool r = n->try_get(v);
            ev(r ? "T" + S(v) : std::string("T-")); out(r ? "1" : "0"); return true;
        }
        if (w[0] == "xres" && w.size() == 1 && !xholds) {
            int v = 0; bool r = n->try_reserve(v);
            if (r) xholds = true;
            ev(r ? "R" + S(v) : std::string("R-")); out(r ? "1" : "0"); return true;
        }
        if ((w[0] == "xrel" || w[0] == "xcon") && w.size() == 1 && xholds) {
            if (w[0] == "xrel") n->try_release(); else n->try_consume();
            xholds = false; out("ok"); return true;
        }
        return false;
    }
};

static void loop(bool nested) {
    char buf[512];
    while (fgets(buf, sizeof buf, stdin)) {
        std::vector<std::string> w;
        { std::istringstream is(buf); std::string x; while (is >> x) w.push_back(x); }
        if (w.empty()) continue;
        g_ev.clear();
        if (w[0] == "resume" && w.size() == 1) {
            if (nested) return;                      // the suspended operation prints this line's output when it completes / suspends again
            puts("bad-op"); fflush(stdout); continue;
        }
        if (!g_mode->line(w)) { puts("bad-op"); fflush(stdout); }
    }
    if (nested) { fflush(stdout); _Exit(0); }        // script ended inside a window: nothing to unwind to
}

int main(int argc, char** argv) {
    std::unique_ptr<Mode> m;
    if (argc > 1 && !strcmp(argv[1], "inp")) m.reset(new InpMode()); else m.reset(new LimMode());
    g_mode = m.get();
    loop(false);
    return 0;
}
