// C14 (c) E-MOCK harness for try_put_and_wait (preview, compiled with -DTBB_PREVIEW_FLOW_GRAPH_TRY_PUT_AND_WAIT=1):
// the REAL function_node (queueing / rejecting), queue_node, join_node<tuple<int,int>,queueing>, limiter_node on a mock
// r1 task pool (the script picks which pending task runs next).  A tracked put `tpw n m` does what
// receiver::try_put_and_wait does up to the wait: try_put_task(m, message_metainfo{&vertex}) with a harness-owned
// d1::wait_context_vertex subclass that records every reserve / release (so the minimum of the count during a script
// line is known); the real try_put_and_wait itself runs in the E-REAL harness.
// Output per line:  <res> | <events> | <pending tasks k<seq>:<what>> | w<id>=<count>/<min in this line> … | <holders>
//   holders (white-box): T:<msg[+msg]>:<waiters> for pending trackable tasks, S:<msg>:<waiters> for occupied slots of
//   function-node input queues, queue_node buffers and join ports ("-" = no waiter).
#include <oneapi/tbb/flow_graph.h>
#include <cstdio>
#include <cstdlib>
#include <cstring>
#include <map>
#include <memory>
#include <sstream>
#include <string>
#include <tuple>
#include <vector>

#if !__TBB_PREVIEW_FLOW_GRAPH_TRY_PUT_AND_WAIT
#error "build with -DTBB_PREVIEW_FLOW_GRAPH_TRY_PUT_AND_WAIT=1"
#endif

using namespace tbb::flow;
namespace d1 = tbb::detail::d1;
namespace d2 = tbb::detail::d2;

static std::vector<std::pair<long, d1::task*>> g_pool;      // (sequence number, task)
static long g_seq = 0;

namespace tbb { namespace detail { namespace r1 {
void* __TBB_EXPORTED_FUNC allocate(d1::small_object_pool*& pool, std::size_t bytes) {
    pool = reinterpret_cast<d1::small_object_pool*>(std::uintptr_t(0x10));
    return std::malloc(bytes);
}
void* __TBB_EXPORTED_FUNC allocate(d1::small_object_pool*& pool, std::size_t bytes, const d1::execution_data&) { return allocate(pool, bytes); }
void __TBB_EXPORTED_FUNC deallocate(d1::small_object_pool&, void* ptr, std::size_t) { std::free(ptr); }
void __TBB_EXPORTED_FUNC deallocate(d1::small_object_pool& p, void* ptr, std::size_t n, const d1::execution_data&) { deallocate(p, ptr, n); }
void __TBB_EXPORTED_FUNC initialize(d1::task_arena_base&) {}
void __TBB_EXPORTED_FUNC terminate(d1::task_arena_base&) {}
bool __TBB_EXPORTED_FUNC attach(d1::task_arena_base&) { return true; }
void __TBB_EXPORTED_FUNC execute(d1::task_arena_base&, d1::delegate_base& d) { d(); }
d1::slot_id __TBB_EXPORTED_FUNC execution_slot(const d1::task_arena_base&) { return 0; }
void __TBB_EXPORTED_FUNC initialize(d1::task_group_context&) {}
void __TBB_EXPORTED_FUNC destroy(d1::task_group_context&) {}
void __TBB_EXPORTED_FUNC reset(d1::task_group_context& c) { c.my_cancellation_requested.store(0); }
bool __TBB_EXPORTED_FUNC cancel_group_execution(d1::task_group_context& c) { return c.my_cancellation_requested.exchange(1) == 0; }
bool __TBB_EXPORTED_FUNC is_group_execution_cancelled(d1::task_group_context& c) { return c.my_cancellation_requested.load() != 0; }
void __TBB_EXPORTED_FUNC submit(d1::task& t, d1::task_group_context&, arena*, std::uintptr_t) { g_pool.push_back({g_seq++, &t}); }
void __TBB_EXPORTED_FUNC wait(d1::wait_context&, d1::task_group_context&) {}
void __TBB_EXPORTED_FUNC notify_waiters(std::uintptr_t) {}
d1::wait_tree_vertex_interface* get_thread_reference_vertex(d1::wait_tree_vertex_interface* top) { return top; }
}}}

static std::vector<std::string> g_ev;
static std::string S(long long x) { return std::to_string(x); }
static void ev(const std::string& s) { g_ev.push_back(s); }

// the vertex of one tracked put
struct TraceVertex : d1::wait_context_vertex {
    int id; long long minc = 0;
    explicit TraceVertex(int i) : id(i) {}
    long long count() { return (long long)this->m_wait.m_ref_count.load(); }
    void reserve(std::uint32_t d = 1) override { d1::wait_context_vertex::reserve(d); }
    void release(std::uint32_t d = 1) override { d1::wait_context_vertex::release(d); if (count() < minc) minc = count(); }
};
static std::vector<std::unique_ptr<TraceVertex>> g_vs;
static std::string wlist(const std::forward_list<d1::wait_context_vertex*>& l) {
    std::string s;
    for (auto* v : l) { if (!s.empty()) s += ","; s += S(static_cast<TraceVertex*>(v)->id); }
    return s.empty() ? "-" : s;
}

typedef tbb::cache_aligned_allocator<int> A;
typedef std::tuple<int, int> Tup;
struct Body { int id; int operator()(int v) const { ev("B" + S(id) + ":" + S(v)); return v; } };
struct TBody { int id; int operator()(const Tup& t) const { ev("J" + S(id) + ":" + S(std::get<0>(t)) + "+" + S(std::get<1>(t))); return std::get<0>(t); } };

struct Sink : receiver<int> {
    graph& g; int id; unsigned rejmod;
    Sink(graph& g_, int i, unsigned m) : g(g_), id(i), rejmod(m) {}
    d2::graph_task* try_put_task(const int& v) override {
        bool acc = !(rejmod != 0 && (unsigned)v % rejmod == 0);
        ev("O" + S(id) + ":" + S(v) + ":" + (acc ? "a" : "r"));
        return acc ? d2::SUCCESSFULLY_ENQUEUED : nullptr;
    }
    d2::graph_task* try_put_task(const int& v, const d2::message_metainfo&) override { return try_put_task(v); }
    graph& graph_reference() const override { return g; }
    bool register_predecessor(sender<int>&) override { return false; }
};

struct Node {
    int id = 0;
    virtual ~Node() {}
    virtual receiver<int>* rcv(int port) = 0;
    virtual sender<int>* snd() = 0;
    virtual std::string task_name(d1::task*) { return ""; }
    virtual void holders(std::vector<std::string>&) {}
};
template <class Q> static void slots_of(Q& buf, std::vector<std::string>& out) {
    for (size_t i = buf.my_head; i < buf.my_tail; ++i)
        if (buf.my_item_valid(i)) out.push_back("S:" + S(buf.element(i).item) + ":" + wlist(buf.element(i).metainfo.waiters()));
}
template <class P> struct FuncN : Node {
    typedef function_node<int, int, P> FN;
    typedef d2::function_input<int, int, P, A> FI;
    typedef d2::function_input_base<int, P, A, FI> FIB;
    FN n;
    FuncN(graph& g, int i, size_t c) : n(g, c, Body{i}) { id = i; }
    receiver<int>* rcv(int) override { return &n; }
    sender<int>* snd() override { return &n; }
    std::string task_name(d1::task* t) override {
        if (auto* b = dynamic_cast<d2::apply_body_task_bypass<FIB, int>*>(t)) { if (&b->my_node == static_cast<FIB*>(&n)) return "b" + S(id) + "." + S(b->my_input) + "|T:" + S(b->my_input) + ":-"; }
        if (auto* b = dynamic_cast<d2::apply_body_task_bypass<FIB, int, d2::trackable_messages_graph_task>*>(t)) {
            if (&b->my_node == static_cast<FIB*>(&n)) return "b" + S(id) + "." + S(b->my_input) + "|T:" + S(b->my_input) + ":" + wlist(b->my_msg_wait_context_vertices);
        }
        if (auto* f = dynamic_cast<d2::forward_task_bypass<FIB>*>(t)) { if (&f->my_node == static_cast<FIB*>(&n)) return "f" + S(id); }
        return "";
    }
    void holders(std::vector<std::string>& out) override { if (static_cast<FIB&>(n).my_queue) slots_of(*static_cast<FIB&>(n).my_queue, out); }
};
struct QueueN : Node {
    queue_node<int> n;
    QueueN(graph& g, int i) : n(g) { id = i; }
    receiver<int>* rcv(int) override { return &n; }
    sender<int>* snd() override { return &n; }
    std::string task_name(d1::task* t) override {
        if (auto* f = dynamic_cast<d2::forward_task_bypass<buffer_node<int>>*>(t)) { if (&f->my_node == static_cast<buffer_node<int>*>(&n)) return "f" + S(id); }
        return "";
    }
    void holders(std::vector<std::string>& out) override { slots_of(static_cast<d2::item_buffer<int>&>(n), out); }
};
struct JoinN : Node {
    typedef join_node<Tup, queueing> JN;
    typedef function_node<Tup, int, queueing> TF;
    typedef d2::function_input<Tup, int, queueing, tbb::cache_aligned_allocator<Tup>> FI;
    typedef d2::function_input_base<Tup, queueing, tbb::cache_aligned_allocator<Tup>, FI> FIB;
    typedef d2::join_node_base<queueing, typename JN::input_ports_type, Tup> JB;
    JN j; TF f;
    JoinN(graph& g, int i) : j(g), f(g, unlimited, TBody{i}) { id = i; make_edge(j, f); }
    receiver<int>* rcv(int port) override { return port == 0 ? static_cast<receiver<int>*>(&input_port<0>(j)) : static_cast<receiver<int>*>(&input_port<1>(j)); }
    sender<int>* snd() override { return &f; }
    std::string task_name(d1::task* t) override {
        if (auto* b = dynamic_cast<d2::apply_body_task_bypass<FIB, Tup>*>(t)) {
            if (&b->my_node == static_cast<FIB*>(&f)) return "j" + S(id) + "." + S(std::get<0>(b->my_input)) + "|T:" + S(std::get<0>(b->my_input)) + "+" + S(std::get<1>(b->my_input)) + ":-";
        }
        if (auto* b = dynamic_cast<d2::apply_body_task_bypass<FIB, Tup, d2::trackable_messages_graph_task>*>(t)) {
            if (&b->my_node == static_cast<FIB*>(&f)) return "j" + S(id) + "." + S(std::get<0>(b->my_input)) + "|T:" + S(std::get<0>(b->my_input)) + "+" + S(std::get<1>(b->my_input)) + ":" + wlist(b->my_msg_wait_context_vertices);
        }
        if (auto* ft = dynamic_cast<d2::forward_task_bypass<JB>*>(t)) { if (&ft->my_node == static_cast<JB*>(&j)) return "f" + S(id); }
        return "";
    }
    void holders(std::vector<std::string>& out) override {
        slots_of(static_cast<d2::item_buffer<int>&>(input_port<0>(j)), out);
        slots_of(static_cast<d2::item_buffer<int>&>(input_port<1>(j)), out);
    }
};
struct LimN : Node {
    limiter_node<int> n;
    LimN(graph& g, int i, size_t th) : n(g, th) { id = i; }
    receiver<int>* rcv(int) override { return &n; }
    sender<int>* snd() override { return &n; }
    std::string task_name(d1::task* t) override {
        if (auto* f = dynamic_cast<d2::forward_task_bypass<limiter_node<int>>*>(t)) { if (&f->my_node == &n) return "f" + S(id); }
        return "";
    }
};
struct SinkN : Node {
    Sink s;
    SinkN(graph& g, int i, unsigned m) : s(g, i, m) { id = i; }
    receiver<int>* rcv(int) override { return &s; }
    sender<int>* snd() override { return nullptr; }
};

static bool to_u(const std::string& s, unsigned long& out, unsigned long max) {
    if (s.empty() || s.size() > 9) return false;
    for (char c : s) if (c < '0' || c > '9') return false;
    out = strtoul(s.c_str(), nullptr, 10);
    return out <= max;
}

int main() {
    std::unique_ptr<graph> g(new graph());
    std::vector<std::unique_ptr<Node>> nodes;
    bool going = false;
    char buf[512];
    auto name_of = [&](d1::task* t) { for (auto& n : nodes) { std::string s = n->task_name(t); if (!s.empty()) return s; } return std::string("x"); };
    auto render = [&](const std::string& res) {
        std::string e, pl, ws, hs;
        for (size_t i = 0; i < g_ev.size(); ++i) { if (i) e += " "; e += g_ev[i]; }
        std::vector<std::string> hold;
        for (auto& p : g_pool) {
            std::string nm = name_of(p.second), what = nm, h;
            size_t bar = nm.find('|');
            if (bar != std::string::npos) { what = nm.substr(0, bar); h = nm.substr(bar + 1); }
            if (!pl.empty()) pl += " ";
            pl += "k" + S(p.first) + ":" + what;
            if (!h.empty()) hold.push_back(h);
        }
        for (auto& n : nodes) n->holders(hold);
        for (auto& v : g_vs) { if (!ws.empty()) ws += " "; ws += "w" + S(v->id) + "=" + S(v->count()) + "/" + S(v->minc); }
        for (auto& h : hold) { if (!hs.empty()) hs += " "; hs += h; }
        return res + " | " + (e.empty() ? "-" : e) + " | " + (pl.empty() ? "-" : pl) + " | " + (ws.empty() ? "-" : ws) + " | " + (hs.empty() ? "-" : hs);
    };
    while (fgets(buf, sizeof buf, stdin)) {
        std::vector<std::string> w;
        { std::istringstream is(buf); std::string x; while (is >> x) w.push_back(x); }
        if (w.empty()) continue;
        g_ev.clear();
        for (auto& v : g_vs) v->minc = v->count();
        unsigned long a = 0, b = 0, c = 0;
        std::string out = "bad-op";
        auto valid = [&](unsigned long n) { return n < nodes.size(); };
        if (!going) {
            if (w[0] == "node" && w.size() >= 3 && to_u(w[1], a, 1000) && a == nodes.size()) {
                Node* nd = nullptr;
                if (w[2] == "func" && w.size() == 5 && to_u(w[3], b, 1000) && (w[4] == "q" || w[4] == "r")) {
                    if (w[4] == "q") nd = new FuncN<queueing>(*g, (int)a, b == 0 ? (size_t)unlimited : b); else nd = new FuncN<rejecting>(*g, (int)a, b == 0 ? (size_t)unlimited : b);
                } else if (w[2] == "queue" && w.size() == 3) nd = new QueueN(*g, (int)a);
                else if (w[2] == "join" && w.size() == 3) nd = new JoinN(*g, (int)a);
                else if (w[2] == "limiter" && w.size() == 4 && to_u(w[3], b, 1000)) nd = new LimN(*g, (int)a, b);
                else if (w[2] == "sink" && w.size() == 4 && to_u(w[3], b, 1000)) nd = new SinkN(*g, (int)a, (unsigned)b);
                if (nd) { nodes.emplace_back(nd); out = "ok"; }
            } else if (w[0] == "edge" && (w.size() == 3 || w.size() == 4) && to_u(w[1], a, 1000) && to_u(w[2], b, 1000) && valid(a) && valid(b) && nodes[a]->snd() &&
                       (w.size() == 3 || to_u(w[3], c, 1))) {
                make_edge(*nodes[a]->snd(), *nodes[b]->rcv((int)c)); out = "ok";
            } else if (w[0] == "go" && w.size() == 1) { going = true; out = render("ok"); }
            puts(out.c_str()); fflush(stdout); continue;
        }
        if ((w[0] == "tpw" || w[0] == "put") && (w.size() == 3 || w.size() == 4) && to_u(w[1], a, 1000) && valid(a) && to_u(w[2], b, 1000000) && (w.size() == 3 || to_u(w[3], c, 1))) {
            receiver<int>* r = nodes[a]->rcv((int)c);
            d2::graph_task* t = nullptr;
            if (w[0] == "tpw") {
                bool dup = false; for (auto& v : g_vs) dup = dup || v->id == (int)b;
                if (!dup) {
                    g_vs.emplace_back(new TraceVertex((int)b));
                    // what receiver<T>::try_put_and_wait does before it waits
                    t = r->try_put_task((int)b, d2::message_metainfo{d2::message_metainfo::waiters_type{g_vs.back().get()}});
                    if (t && t != d2::SUCCESSFULLY_ENQUEUED) d2::spawn_in_graph_arena(*g, *t);
                    out = render(t ? "1" : "0");
                }
            } else { bool ok = r->try_put((int)b); out = render(ok ? "1" : "0"); }
        } else if (w[0] == "run" && w.size() == 2 && w[1].size() > 1 && w[1][0] == 'k' && to_u(w[1].substr(1), a, 100000000)) {
            for (size_t i = 0; i < g_pool.size(); ++i) if (g_pool[i].first == (long)a) {
                d1::task* t = g_pool[i].second; g_pool.erase(g_pool.begin() + i);
                d1::execution_data ed{g->my_context, 0, 0};
                d1::task* next = t->execute(ed);
                if (next) g_pool.push_back({g_seq++, next});
                out = render("ok"); break;
            }
        } else if (w[0] == "dec" && w.size() == 2 && to_u(w[1], a, 1000) && valid(a) && dynamic_cast<LimN*>(nodes[a].get())) {
            dynamic_cast<LimN*>(nodes[a].get())->n.decrementer().try_put(continue_msg()); out = render("ok");
        } else if (w[0] == "mode" && w.size() == 3 && to_u(w[1], a, 1000) && valid(a) && to_u(w[2], b, 1000) && dynamic_cast<SinkN*>(nodes[a].get())) {
            dynamic_cast<SinkN*>(nodes[a].get())->s.rejmod = (unsigned)b; out = render("ok");
        }
        puts(out.c_str()); fflush(stdout);
    }
    // tear down: cancel what is pending
    g->my_context->my_cancellation_requested.store(1);
    d1::execution_data ed{g->my_context, 0, 0};
    for (auto& p : g_pool) p.second->cancel(ed);
    g_pool.clear();
    g->my_wait_context_vertex.m_wait.m_ref_count.store(0);
    nodes.clear();
    for (auto& v : g_vs) v->m_wait.m_ref_count.store(0);
    g.reset();
    return 0;
}
