// C14 E-MOCK harness: the REAL flow-graph node classes of /repo (all of C14's code is header code) on a mock
// `r1` task pool.  No libtbb is linked: the ~20 r1:: entry points the flow-graph headers call are defined here
// (plus harness/common/r1_stubs.cpp), `r1::submit` puts the task into a pool and the SCRIPT decides which
// pending task the "dispatcher" runs next, so every task-level interleaving is reachable deterministically.
// Same line protocol as `drv_c14 c14sim` (lean/TbbVerif/Model/C14.lean, Part 5); one output line per input line:
//   <result> | <events> | <pending tasks, sorted> | v=<wait vertex> c=<ctx cancelled> | <white-box node states>
// Built with -fno-access-control: my_concurrency, my_queue, my_predecessors, forwarder_busy, cache contents,
// input_node flags, continue counters, the graph's wait-context reference count are read directly.
//
//   c14cache mode (argv[1] == "cache"): a real broadcast_cache<int> / round_robin_cache<int> with scripted receivers.
#include <oneapi/tbb/flow_graph.h>
#include <cstdio>
#include <cstdlib>
#include <cstring>
#include <exception>
#include <map>
#include <memory>
#include <queue>
#include <set>
#include <sstream>
#include <string>
#include <vector>
#include <algorithm>

using namespace tbb::flow;
namespace d1 = tbb::detail::d1;
namespace d2 = tbb::detail::d2;

// ---------------------------------------------------------------------------------------------------------
// mock runtime
// ---------------------------------------------------------------------------------------------------------
static std::vector<d1::task*> g_submitted;          // tasks handed to r1::submit since the last drain
static std::exception_ptr g_exc;                    // exception stored "in the context"
static long g_alloc_live = 0;
static bool g_foreign_flag = false;                 // the current call is made by a thread outside the graph's arena (gateway calls)

namespace tbb { namespace detail { namespace r1 {
void* __TBB_EXPORTED_FUNC allocate(d1::small_object_pool*& pool, std::size_t bytes) {
    pool = reinterpret_cast<d1::small_object_pool*>(std::uintptr_t(0x10));
    ++g_alloc_live;
    return std::malloc(bytes);
}
void* __TBB_EXPORTED_FUNC allocate(d1::small_object_pool*& pool, std::size_t bytes, const d1::execution_data&) { return allocate(pool, bytes); }
void __TBB_EXPORTED_FUNC deallocate(d1::small_object_pool&, void* ptr, std::size_t) { --g_alloc_live; std::free(ptr); }
void __TBB_EXPORTED_FUNC deallocate(d1::small_object_pool& p, void* ptr, std::size_t n, const d1::execution_data&) { deallocate(p, ptr, n); }
void __TBB_EXPORTED_FUNC initialize(d1::task_arena_base&) {}
void __TBB_EXPORTED_FUNC terminate(d1::task_arena_base&) {}
bool __TBB_EXPORTED_FUNC attach(d1::task_arena_base&) { return true; }
void __TBB_EXPORTED_FUNC execute(d1::task_arena_base&, d1::delegate_base& d) { d(); }
d1::slot_id __TBB_EXPORTED_FUNC execution_slot(const d1::task_arena_base&) { return g_foreign_flag ? d1::slot_id(-1) : d1::slot_id(0); }
void __TBB_EXPORTED_FUNC initialize(d1::task_group_context&) {}
void __TBB_EXPORTED_FUNC destroy(d1::task_group_context&) {}
void __TBB_EXPORTED_FUNC reset(d1::task_group_context& c) { c.my_cancellation_requested.store(0); g_exc = nullptr; }
bool __TBB_EXPORTED_FUNC cancel_group_execution(d1::task_group_context& c) { return c.my_cancellation_requested.exchange(1) == 0; }
bool __TBB_EXPORTED_FUNC is_group_execution_cancelled(d1::task_group_context& c) { return c.my_cancellation_requested.load() != 0; }
void __TBB_EXPORTED_FUNC submit(d1::task& t, d1::task_group_context&, arena*, std::uintptr_t) { g_submitted.push_back(&t); }
void __TBB_EXPORTED_FUNC wait(d1::wait_context&, d1::task_group_context&) {
    // the harness only calls wait_for_all when the reference count is 0; a stored exception is rethrown
    if (g_exc) { std::exception_ptr e = g_exc; std::rethrow_exception(e); }
}
void __TBB_EXPORTED_FUNC notify_waiters(std::uintptr_t) {}
d1::wait_tree_vertex_interface* get_thread_reference_vertex(d1::wait_tree_vertex_interface* top) { return top; }
}}}

// ---------------------------------------------------------------------------------------------------------
// helpers
// ---------------------------------------------------------------------------------------------------------
static std::vector<std::string> g_ev;
static bool g_throw = false;                       // the next (throw-capable) body throws
static std::string S(long long x) { return std::to_string(x); }
static void ev(const std::string& s) { g_ev.push_back(s); }

static std::map<const void*, int> g_recv_id;       // receiver<int>* / receiver<continue_msg>* -> node id
static std::map<const void*, int> g_send_id;       // sender<int>* -> node id
static std::map<const void*, int> g_fib_id;        // function_input_base subobject / continue_input / input_node -> node id

static std::string ids(const std::vector<int>& v) {
    if (v.empty()) return "-";
    std::string s;
    for (size_t i = 0; i < v.size(); ++i) { if (i) s += ","; s += S(v[i]); }
    return s;
}
template <class L> static std::string succ_ids(L& lst) {
    std::vector<int> v;
    for (auto* r : lst) { auto it = g_recv_id.find((const void*)r); v.push_back(it == g_recv_id.end() ? -1 : it->second); }
    return ids(v);
}

typedef tbb::cache_aligned_allocator<int> A;

struct BodyT {   // may throw: never lightweight
    int id;
    int operator()(int v) const {
        if (g_throw) { g_throw = false; ev("B" + S(id) + ":" + S(v) + "!"); throw 42; }
        ev("B" + S(id) + ":" + S(v));
        return v;
    }
};
struct BodyNT {  // noexcept: the lightweight policy takes effect
    int id;
    int operator()(int v) const noexcept { ev("B" + S(id) + ":" + S(v)); return v; }
};
typedef multifunction_node<int, std::tuple<int>, queueing>::output_ports_type PortsQ;
struct MBody {
    int id;
    template <class Ports> void operator()(const int& v, Ports& ports) const {
        if (g_throw) { g_throw = false; ev("B" + S(id) + ":" + S(v) + "!"); throw 42; }
        ev("B" + S(id) + ":" + S(v));
        std::get<0>(ports).try_put(v);
    }
};
struct IBody {
    int id; int next; int stop;
    int operator()(tbb::flow_control& fc) {
        if (next >= stop) { fc.stop(); ev("G" + S(id) + ":stop"); return 0; }
        ev("G" + S(id) + ":" + S(next));
        return next++;
    }
};
struct CBodyT {
    int id; int runs;
    int operator()(continue_msg) {
        int v = 1000 * id + runs;
        if (g_throw) { g_throw = false; ev("C" + S(id) + ":" + S(v) + "!"); throw 42; }
        ++runs; ev("C" + S(id) + ":" + S(v));
        return v;
    }
};
struct CBodyNT {
    int id; int runs;
    int operator()(continue_msg) noexcept { int v = 1000 * id + runs; ++runs; ev("C" + S(id) + ":" + S(v)); return v; }
};

// scripted receiver
struct Sink : receiver<int> {
    graph& g; int id; unsigned rejmod; bool regok; std::vector<sender<int>*> preds; bool holds = false;
    Sink(graph& g_, int i, unsigned m, bool r) : g(g_), id(i), rejmod(m), regok(r) {}
    d2::graph_task* try_put_task(const int& v) override {
        bool acc = !(rejmod != 0 && (unsigned)v % rejmod == 0);
        ev("O" + S(id) + ":" + S(v) + ":" + (acc ? "a" : "r"));
        return acc ? d2::SUCCESSFULLY_ENQUEUED : nullptr;
    }
#if __TBB_PREVIEW_FLOW_GRAPH_TRY_PUT_AND_WAIT
    d2::graph_task* try_put_task(const int& v, const d2::message_metainfo&) override { return try_put_task(v); }
#endif
    graph& graph_reference() const override { return g; }
    bool register_predecessor(sender<int>& s) override { if (!regok) return false; preds.push_back(&s); return true; }
    bool remove_predecessor(sender<int>&) override { return true; }
};

struct Node {
    int id = 0;
    virtual ~Node() {}
    virtual std::string kind() const = 0;
    virtual receiver<int>* rcv() { return nullptr; }
    virtual sender<int>* snd() { return nullptr; }
    virtual receiver<continue_msg>* crcv() { return nullptr; }
    virtual sender<continue_msg>* csnd() { return nullptr; }
    virtual std::string dump() = 0;
    virtual std::string name_of(d1::task*) { return ""; }    // "" if the task does not belong to this node
};

template <class FN> static std::string dump_func(int id, FN& f, std::list<receiver<int>*>& succs) {
    std::string q;
    if (!f.my_queue) q = "x";
    else {
        std::vector<int> v;
        for (size_t i = f.my_queue->my_head; i < f.my_queue->my_tail; ++i) v.push_back(f.my_queue->element(i).item);
        q = ids(v);
    }
    std::vector<int> p;
    {
        auto copy = f.my_predecessors.my_q;
        while (!copy.empty()) { auto it = g_send_id.find((const void*)copy.front()); p.push_back(it == g_send_id.end() ? -1 : it->second); copy.pop(); }
    }
    return S(id) + ":c" + S((long long)f.my_concurrency) + " q" + q + " p" + ids(p) + " f" + (f.forwarder_busy ? "1" : "0") + " s" + succ_ids(succs);
}

template <class P, class Body>
struct FuncNode : Node {
    typedef function_node<int, int, P> FN;
    typedef d2::function_input<int, int, P, A> FI;
    typedef d2::function_input_base<int, P, A, FI> FIB;
    FN n;
    FuncNode(graph& g, int i, size_t maxc) : n(g, maxc, Body{i}) { id = i; g_fib_id[(const void*)static_cast<FIB*>(&n)] = i; }
    std::string kind() const override { return "func"; }
    receiver<int>* rcv() override { return &n; }
    sender<int>* snd() override { return &n; }
    std::string dump() override { return dump_func(id, static_cast<FIB&>(n), n.successors().my_successors); }
    std::string name_of(d1::task* t) override {
        if (auto* b = dynamic_cast<d2::apply_body_task_bypass<FIB, int>*>(t)) { if (&b->my_node == static_cast<FIB*>(&n)) return "b" + S(id) + "." + S(b->my_input); }
        if (auto* f = dynamic_cast<d2::forward_task_bypass<FIB>*>(t)) { if (&f->my_node == static_cast<FIB*>(&n)) return "f" + S(id); }
        return "";
    }
};

template <class P>
struct MFuncNode : Node {
    typedef multifunction_node<int, std::tuple<int>, P> MN;
    typedef typename MN::output_ports_type Ports;
    typedef d2::multifunction_input<int, Ports, P, A> MI;
    typedef d2::function_input_base<int, P, A, MI> FIB;
    MN n;
    MFuncNode(graph& g, int i, size_t maxc) : n(g, maxc, MBody{i}) { id = i; g_fib_id[(const void*)static_cast<FIB*>(&n)] = i; }
    std::string kind() const override { return "mfunc"; }
    receiver<int>* rcv() override { return &n; }
    sender<int>* snd() override { return &output_port<0>(n); }
    std::string dump() override { return dump_func(id, static_cast<FIB&>(n), output_port<0>(n).successors().my_successors); }
    std::string name_of(d1::task* t) override {
        if (auto* b = dynamic_cast<d2::apply_body_task_bypass<FIB, int>*>(t)) { if (&b->my_node == static_cast<FIB*>(&n)) return "b" + S(id) + "." + S(b->my_input); }
        if (auto* f = dynamic_cast<d2::forward_task_bypass<FIB>*>(t)) { if (&f->my_node == static_cast<FIB*>(&n)) return "f" + S(id); }
        return "";
    }
};

// async_node: the body only talks to the gateway (optionally reserve_wait); the script later plays the foreign thread
struct ABody {
    int id; bool resv; long* gres;
    template <class GW> void operator()(const int& v, GW& gw) const {
        ev("A" + S(id) + ":" + S(v));
        if (resv) { gw.reserve_wait(); ++*gres; ev("W" + S(id)); }
    }
};
struct AsyncBase : Node {
    long gres = 0;
    virtual bool gput(int v) = 0;
    virtual void grel() = 0;
};
template <class P>
struct AsyncNodeW : AsyncBase {
    typedef async_node<int, int, P> AN;
    typedef typename AN::output_ports_type Ports;
    typedef d2::multifunction_input<int, Ports, P, A> MI;
    typedef d2::function_input_base<int, P, A, MI> FIB;
    AN n;
    AsyncNodeW(graph& g, int i, size_t maxc, bool resv) : n(g, maxc, ABody{i, resv, &gres}) { id = i; g_fib_id[(const void*)static_cast<FIB*>(&n)] = i; }
    std::string kind() const override { return "async"; }
    receiver<int>* rcv() override { return &n; }
    sender<int>* snd() override { return &output_port<0>(n); }
    std::string dump() override { return dump_func(id, static_cast<FIB&>(n), output_port<0>(n).successors().my_successors) + " g" + S(gres); }
    std::string name_of(d1::task* t) override {
        if (auto* b = dynamic_cast<d2::apply_body_task_bypass<FIB, int>*>(t)) { if (&b->my_node == static_cast<FIB*>(&n)) return "b" + S(id) + "." + S(b->my_input); }
        if (auto* f = dynamic_cast<d2::forward_task_bypass<FIB>*>(t)) { if (&f->my_node == static_cast<FIB*>(&n)) return "f" + S(id); }
        return "";
    }
    bool gput(int v) override { g_foreign_flag = true; bool r = n.gateway().try_put(v); g_foreign_flag = false; return r; }
    void grel() override { g_foreign_flag = true; n.gateway().release_wait(); g_foreign_flag = false; }
};

struct InputNodeW : Node {
    input_node<int> n;
    InputNodeW(graph& g, int i, int first, int stop) : n(g, IBody{i, first, stop}) { id = i; }
    std::string kind() const override { return "input"; }
    sender<int>* snd() override { return &n; }
    std::string dump() override {
        return S(id) + ":a" + (n.my_active ? "1" : "0") + " r" + (n.my_reserved ? "1" : "0") + " h" + (n.my_has_cached_item ? "1" : "0") +
               " i" + S(n.my_has_cached_item ? n.my_cached_item : 0) + " s" + succ_ids(n.my_successors.my_successors);
    }
    std::string name_of(d1::task* t) override {
        if (auto* p = dynamic_cast<d2::input_node_task_bypass<input_node<int>>*>(t)) { if (&p->my_node == &n) return "p" + S(id); }
        return "";
    }
};

template <class P, class Body>
struct ContNodeW : Node {
    typedef continue_node<int, P> CN;
    typedef d2::continue_input<int, P> CI;
    CN n;
    ContNodeW(graph& g, int i) : n(g, Body{i, 0}) { id = i; }
    std::string kind() const override { return "cont"; }
    receiver<continue_msg>* crcv() override { return &n; }
    sender<int>* snd() override { return &n; }
    std::string dump() override {
        return S(id) + ":pc" + S(n.my_predecessor_count) + " cc" + S(n.my_current_count) + " s" + succ_ids(n.successors().my_successors);
    }
    std::string name_of(d1::task* t) override {
        if (auto* b = dynamic_cast<d2::apply_body_task_bypass<CI, continue_msg>*>(t)) { if (&b->my_node == static_cast<CI*>(&n)) return "c" + S(id); }
        return "";
    }
};

struct SinkW : Node {
    Sink s;
    SinkW(graph& g, int i, unsigned m, bool r) : s(g, i, m, r) { id = i; }
    std::string kind() const override { return "sink"; }
    receiver<int>* rcv() override { return &s; }
    std::string dump() override {
        std::vector<int> p;
        for (auto* x : s.preds) { auto it = g_send_id.find((const void*)x); p.push_back(it == g_send_id.end() ? -1 : it->second); }
        return S(id) + ":p" + ids(p);
    }
};

// pass-through receiver in front of function node `tgt`; at register_predecessor it first lets the armed task run
// (another thread completing a body of the target between the rejected try_put_task and register_predecessor)
struct Harness;
struct Proxy : receiver<int> {
    graph& g; int id; int tgt; Harness* h = nullptr; std::string hook;
    Proxy(graph& g_, int i, int t) : g(g_), id(i), tgt(t) {}
    receiver<int>* target();
    d2::graph_task* try_put_task(const int& v) override { return target()->try_put_task(v); }
#if __TBB_PREVIEW_FLOW_GRAPH_TRY_PUT_AND_WAIT
    d2::graph_task* try_put_task(const int& v, const d2::message_metainfo&) override { return try_put_task(v); }
#endif
    graph& graph_reference() const override { return g; }
    bool register_predecessor(sender<int>& s) override;
    bool remove_predecessor(sender<int>&) override { return true; }
};
struct ProxyW : Node {
    Proxy p;
    ProxyW(graph& g, int i, int t) : p(g, i, t) { id = i; }
    std::string kind() const override { return "proxy"; }
    receiver<int>* rcv() override { return &p; }
    std::string dump() override { return S(id) + ":t" + S(p.tgt) + " h" + (p.hook.empty() ? "-" : p.hook); }
};

struct BcW : Node {
    broadcast_node<continue_msg> n;
    BcW(graph& g, int i) : n(g) { id = i; }
    std::string kind() const override { return "bc"; }
    receiver<continue_msg>* crcv() override { return &n; }
    sender<continue_msg>* csnd() override { return &n; }
    std::string dump() override {
        std::vector<int> v;
        for (auto* r : n.my_successors.my_successors) { auto it = g_recv_id.find((const void*)r); v.push_back(it == g_recv_id.end() ? -1 : it->second); }
        return S(id) + ":s" + ids(v);
    }
};

// ---------------------------------------------------------------------------------------------------------
// the scripted dispatcher
// ---------------------------------------------------------------------------------------------------------
struct Harness {
    std::unique_ptr<graph> g;
    std::vector<std::unique_ptr<Node>> nodes;
    std::vector<std::pair<std::string, d1::task*>> pool;
    std::multiset<std::string> begun;
    bool going = false;
    long resv = 0;

    Harness() : g(new graph()) {}
    ~Harness() {
        // drain: cancel whatever is pending so that ~graph()'s wait_for_all finds a zero count
        g->my_context->my_cancellation_requested.store(1);
        drain_submitted();
        d1::execution_data ed{g->my_context, 0, 0};
        for (auto& p : pool) p.second->cancel(ed);
        pool.clear();
        while (resv-- > 0) g->release_wait();
        g_exc = nullptr;
        nodes.clear();   // nodes before the graph
        g->my_wait_context_vertex.m_wait.m_ref_count.store(0);
        g.reset();
    }

    std::string identify(d1::task* t) {
        for (auto& n : nodes) { std::string s = n->name_of(t); if (!s.empty()) return s; }
        return "?";
    }
    void drain_submitted() {
        for (d1::task* t : g_submitted) pool.push_back({identify(t), t});
        g_submitted.clear();
    }
    long long vertex() { return (long long)g->my_wait_context_vertex.m_wait.m_ref_count.load(); }
    bool cancelled() { return g->my_context->my_cancellation_requested.load() != 0; }

    std::string render(const std::string& res) {
        drain_submitted();
        std::string e;
        if (g_ev.empty()) e = "-"; else for (size_t i = 0; i < g_ev.size(); ++i) { if (i) e += " "; e += g_ev[i]; }
        std::vector<std::string> names;
        for (auto& p : pool) names.push_back(p.first);
        std::sort(names.begin(), names.end());
        std::string pl;
        if (names.empty()) pl = "-"; else for (size_t i = 0; i < names.size(); ++i) { if (i) pl += " "; pl += names[i]; }
        std::string ns;
        for (size_t i = 0; i < nodes.size(); ++i) { if (i) ns += " ; "; ns += nodes[i]->dump(); }
        return res + " | " + e + " | " + pl + " | v=" + S(vertex()) + " c=" + (cancelled() ? "1" : "0") + " | " + ns;
    }

    int find_task(const std::string& name) { for (size_t i = 0; i < pool.size(); ++i) if (pool[i].first == name) return (int)i; return -1; }
    size_t pool_count(const std::string& name) { size_t c = 0; for (auto& p : pool) if (p.first == name) ++c; return c; }

    void exec(int idx, bool thr) {
        std::string name = pool[idx].first;
        d1::task* t = pool[idx].second;
        pool.erase(pool.begin() + idx);
        bool was_begun = begun.count(name) > 0;
        if (was_begun) begun.erase(begun.find(name));
        d1::execution_data ed{g->my_context, 0, 0};
        d1::task* next = nullptr;
        if (cancelled() && !was_begun) next = t->cancel(ed);
        else {
            g_throw = thr;
            try { next = t->execute(ed); }
            catch (...) {
                // task_dispatcher::local_wait_for_all: first canceller stores the exception; the throwing task is then
                // re-dispatched in a cancelled context, i.e. t->cancel(ed)
                if (tbb::detail::r1::cancel_group_execution(*g->my_context)) g_exc = std::current_exception();
                next = t->cancel(ed);
            }
            g_throw = false;
        }
        if (next) g_submitted.push_back(next);
        drain_submitted();
    }
};

receiver<int>* Proxy::target() { return h->nodes[tgt]->rcv(); }
bool Proxy::register_predecessor(sender<int>& s) {
    std::string hk = hook; hook.clear();
    if (!hk.empty()) {
        h->drain_submitted();
        int idx = h->find_task(hk);
        if (idx >= 0) {
            if (!h->cancelled() && h->begun.count(hk) < h->pool_count(hk)) h->begun.insert(hk);
            h->exec(idx, false);
        }
    }
    return target()->register_predecessor(s);
}

static bool to_u(const std::string& s, unsigned long& out, unsigned long max) {
    if (s.empty() || s.size() > 9) return false;
    for (char c : s) if (c < '0' || c > '9') return false;
    out = strtoul(s.c_str(), nullptr, 10);
    return out <= max;
}

static bool parse_task_name(const std::string& w) {
    if (w.size() < 2) return false;
    char k = w[0];
    std::string rest = w.substr(1);
    unsigned long a, b;
    if (k == 'b') { size_t d = rest.find('.'); if (d == std::string::npos) return false; return rest.find('.', d + 1) == std::string::npos && to_u(rest.substr(0, d), a, 999999999) && to_u(rest.substr(d + 1), b, 999999999); }
    if (k == 'f' || k == 'p' || k == 'c') return to_u(rest, a, 999999999);
    return false;
}

static int run_sim() {
    std::unique_ptr<Harness> H(new Harness());
    char line[512];
    while (fgets(line, sizeof line, stdin)) {
        std::vector<std::string> w;
        { std::istringstream is(line); std::string x; while (is >> x) w.push_back(x); }
        if (w.empty()) continue;
        g_ev.clear();
        std::string out = "bad-op";
        Harness& h = *H;
        unsigned long a = 0, b = 0, c = 0;
        auto valid = [&](unsigned long n) { return n < h.nodes.size(); };
        auto is_kind = [&](unsigned long n, const char* k) { return valid(n) && h.nodes[n]->kind() == k; };
        auto is_funcish = [&](unsigned long n) { return is_kind(n, "func") || is_kind(n, "mfunc") || is_kind(n, "async"); };
        if (w[0] == "node" && w.size() >= 3 && !h.going && to_u(w[1], a, 1000) && a == h.nodes.size()) {
            int id = (int)a;
            Node* nd = nullptr;
            if (w[2] == "func" && w.size() == 6 && to_u(w[3], b, 1000) && (w[4] == "q" || w[4] == "r") && (w[5] == "0" || w[5] == "1")) {
                bool q = w[4] == "q", lw = w[5] == "1";
                if (q && !lw) nd = new FuncNode<queueing, BodyT>(*h.g, id, b);
                else if (!q && !lw) nd = new FuncNode<rejecting, BodyT>(*h.g, id, b);
                else if (q && lw) nd = new FuncNode<queueing_lightweight, BodyNT>(*h.g, id, b);
                else nd = new FuncNode<rejecting_lightweight, BodyNT>(*h.g, id, b);
            } else if (w[2] == "mfunc" && w.size() == 5 && to_u(w[3], b, 1000) && (w[4] == "q" || w[4] == "r")) {
                if (w[4] == "q") nd = new MFuncNode<queueing>(*h.g, id, b); else nd = new MFuncNode<rejecting>(*h.g, id, b);
            } else if (w[2] == "async" && w.size() == 6 && to_u(w[3], b, 1000) && (w[4] == "q" || w[4] == "r") && (w[5] == "0" || w[5] == "1")) {
                if (w[4] == "q") nd = new AsyncNodeW<queueing>(*h.g, id, b, w[5] == "1"); else nd = new AsyncNodeW<rejecting>(*h.g, id, b, w[5] == "1");
            } else if (w[2] == "input" && w.size() == 5 && to_u(w[3], b, 100000) && to_u(w[4], c, 100000)) {
                nd = new InputNodeW(*h.g, id, (int)b, (int)c);
            } else if (w[2] == "cont" && w.size() == 4 && (w[3] == "0" || w[3] == "1")) {
                if (w[3] == "1") nd = new ContNodeW<lightweight, CBodyNT>(*h.g, id); else nd = new ContNodeW<d2::Policy<void>, CBodyT>(*h.g, id);
            } else if (w[2] == "sink" && w.size() == 5 && to_u(w[3], b, 1000) && (w[4] == "0" || w[4] == "1")) {
                nd = new SinkW(*h.g, id, (unsigned)b, w[4] == "1");
            } else if (w[2] == "bc" && w.size() == 3) {
                nd = new BcW(*h.g, id);
            } else if (w[2] == "proxy" && w.size() == 4 && to_u(w[3], b, 1000)) {
                auto* pw = new ProxyW(*h.g, id, (int)b); pw->p.h = &h; nd = pw;
            }
            if (nd) {
                h.nodes.emplace_back(nd);
                if (nd->rcv()) g_recv_id[(const void*)nd->rcv()] = id;
                if (nd->crcv()) g_recv_id[(const void*)nd->crcv()] = id;
                if (nd->snd()) g_send_id[(const void*)nd->snd()] = id;
                out = "ok";
            }
            puts(out.c_str()); fflush(stdout); continue;
        }
        if (w[0] == "edge" && w.size() == 3 && !h.going && to_u(w[1], a, 1000) && to_u(w[2], b, 1000) && valid(a) && valid(b)) {
            Node* p = h.nodes[a].get(); Node* r = h.nodes[b].get();
            bool int_sender = p->snd() != nullptr;
            bool int_recv = r->rcv() != nullptr;
            if (int_sender && int_recv) { make_edge(*p->snd(), *r->rcv()); out = "ok"; }
            else if (p->kind() == "bc" && r->kind() == "cont") { make_edge(*p->csnd(), *r->crcv()); out = "ok"; }
            puts(out.c_str()); fflush(stdout); continue;
        }
        if (w[0] == "go" && w.size() == 1 && !h.going) {
            bool okp = true;
            for (auto& n : h.nodes) if (n->kind() == "proxy") { unsigned long t = (unsigned long)static_cast<ProxyW*>(n.get())->p.tgt; okp = okp && is_funcish(t); }
            if (!okp) { puts("bad-op"); fflush(stdout); continue; }
            h.going = true; puts(h.render("ok").c_str()); fflush(stdout); continue;
        }
        if (!h.going) { puts("bad-op"); fflush(stdout); continue; }
        bool done = false;
        if (w[0] == "put" && w.size() == 3 && to_u(w[1], a, 1000) && to_u(w[2], b, 1000000) && (is_funcish(a) || is_kind(a, "sink"))) {
            bool r = h.nodes[a]->rcv()->try_put((int)b);
            out = h.render(r ? "1" : "0"); done = true;
        } else if (w[0] == "hook" && w.size() == 3 && to_u(w[1], a, 1000) && is_kind(a, "proxy") && parse_task_name(w[2]) && w[2][0] == 'b' &&
                   strtoul(w[2].c_str() + 1, nullptr, 10) == (unsigned long)static_cast<ProxyW*>(h.nodes[a].get())->p.tgt) {
            static_cast<ProxyW*>(h.nodes[a].get())->p.hook = w[2];
            out = h.render("ok"); done = true;
        } else if (w[0] == "gput" && w.size() == 3 && to_u(w[1], a, 1000) && to_u(w[2], b, 1000000) && is_kind(a, "async")) {
            bool r = static_cast<AsyncBase*>(h.nodes[a].get())->gput((int)b);
            out = h.render(r ? "1" : "0"); done = true;
        } else if (w[0] == "grel" && w.size() == 2 && to_u(w[1], a, 1000) && is_kind(a, "async") && static_cast<AsyncBase*>(h.nodes[a].get())->gres > 0) {
            AsyncBase* an = static_cast<AsyncBase*>(h.nodes[a].get());
            an->grel(); --an->gres;
            out = h.render("ok"); done = true;
        } else if (w[0] == "cput" && w.size() == 2 && to_u(w[1], a, 1000) && (is_kind(a, "cont") || is_kind(a, "bc"))) {
            bool r = h.nodes[a]->crcv()->try_put(continue_msg());
            out = h.render(r ? "1" : "0"); done = true;
        } else if (w[0] == "activate" && w.size() == 2 && to_u(w[1], a, 1000) && is_kind(a, "input")) {
            static_cast<InputNodeW*>(h.nodes[a].get())->n.activate();
            out = h.render("ok"); done = true;
        } else if ((w[0] == "begin" || w[0] == "end" || w[0] == "run" || w[0] == "throw") && w.size() == 2 && parse_task_name(w[1])) {
            int idx = h.find_task(w[1]);
            if (w[0] == "begin") {
                if (h.begun.count(w[1]) < h.pool_count(w[1]) && !h.cancelled()) { h.begun.insert(w[1]); out = h.render("ok"); done = true; }
            } else if (idx >= 0) {
                if (w[0] == "end") { h.exec(idx, false); out = h.render("ok"); done = true; }
                else if (w[0] == "run") {
                    if (!h.cancelled() && h.begun.count(w[1]) < h.pool_count(w[1])) h.begun.insert(w[1]);
                    h.exec(idx, false); out = h.render("ok"); done = true;
                } else {
                    bool ok_kind = false;
                    if (w[1][0] == 'c') ok_kind = true;
                    if (w[1][0] == 'b') {
                        unsigned long n = strtoul(w[1].c_str() + 1, nullptr, 10);
                        // lightweight function nodes have noexcept bodies
                        ok_kind = valid(n) && (is_kind(n, "mfunc") || (is_kind(n, "func") && dynamic_cast<FuncNode<queueing, BodyT>*>(h.nodes[n].get())) ||
                                               (is_kind(n, "func") && dynamic_cast<FuncNode<rejecting, BodyT>*>(h.nodes[n].get())));
                    }
                    bool was_begun = h.begun.count(w[1]) > 0;
                    if (ok_kind && !(h.cancelled() && !was_begun)) {
                        if (!was_begun) h.begun.insert(w[1]);
                        h.exec(idx, true); out = h.render("ok"); done = true;
                    }
                }
            }
        } else if (w[0] == "cancel" && w.size() == 1) { h.g->cancel(); out = h.render("ok"); done = true; }
        else if (w[0] == "reserve" && w.size() == 1) { h.g->reserve_wait(); ++h.resv; out = h.render("ok"); done = true; }
        else if (w[0] == "release" && w.size() == 1) { if (h.resv > 0) { h.g->release_wait(); --h.resv; out = h.render("ok"); done = true; } }
        else if (w[0] == "wfa" && w.size() == 1) {
            h.drain_submitted();
            if (h.vertex() != 0) out = h.render("blocked");
            else {
                std::string res;
                try { h.g->wait_for_all(); res = h.g->is_cancelled() ? "ret cancelled" : "ret"; }
                catch (...) { res = "ret exc"; }
                out = h.render(res);
            }
            done = true;
        } else if (w[0] == "reset" && w.size() == 1) {
            h.drain_submitted();
            if (h.pool.empty() && h.vertex() == 0) { h.g->reset(); out = h.render("ok"); done = true; }
        } else if (w[0] == "mode" && w.size() == 3 && to_u(w[1], a, 1000) && to_u(w[2], b, 1000) && is_kind(a, "sink")) {
            static_cast<SinkW*>(h.nodes[a].get())->s.rejmod = (unsigned)b; out = h.render("ok"); done = true;
        } else if ((w[0] == "sget" || w[0] == "sres" || w[0] == "srel" || w[0] == "scon") && w.size() == 2 && to_u(w[1], a, 1000) && is_kind(a, "sink")) {
            Sink& s = static_cast<SinkW*>(h.nodes[a].get())->s;
            if (!s.preds.empty()) {
                sender<int>* p = s.preds.front();
                int v = 0;
                if (w[0] == "sget" && !s.holds) {
                    if (p->try_get(v)) { ev("T" + S(a) + ":" + S(v)); out = h.render("1"); }
                    else { ev("T" + S(a) + ":-"); register_successor(*p, s); s.preds.erase(s.preds.begin()); out = h.render("0"); }
                    done = true;
                } else if (w[0] == "sres" && !s.holds) {
                    if (p->try_reserve(v)) { ev("R" + S(a) + ":" + S(v)); s.holds = true; out = h.render("1"); }
                    else { ev("R" + S(a) + ":-"); out = h.render("0"); }
                    done = true;
                } else if ((w[0] == "srel" || w[0] == "scon") && s.holds) {
                    if (w[0] == "srel") p->try_release(); else p->try_consume();
                    s.holds = false; out = h.render("ok"); done = true;
                }
            }
        }
        (void)done;
        puts(out.c_str()); fflush(stdout);
    }
    return 0;
}

// ---------------------------------------------------------------------------------------------------------
// cache mode: real broadcast_cache<int> / round_robin_cache<int>
// ---------------------------------------------------------------------------------------------------------
struct CRecv : receiver<int> {
    graph& g; int id; char resp; std::vector<std::string>* log;
    CRecv(graph& g_, int i, char r, std::vector<std::string>* l) : g(g_), id(i), resp(r), log(l) {}
    d2::graph_task* try_put_task(const int&) override { log->push_back(S(id) + std::string(1, resp)); return resp == 'a' ? d2::SUCCESSFULLY_ENQUEUED : nullptr; }
#if __TBB_PREVIEW_FLOW_GRAPH_TRY_PUT_AND_WAIT
    d2::graph_task* try_put_task(const int& v, const d2::message_metainfo&) override { return try_put_task(v); }
#endif
    graph& graph_reference() const override { return g; }
    bool register_predecessor(sender<int>&) override { return resp == 't'; }
};
struct DummySender : sender<int> {
    bool register_successor(receiver<int>&) override { return true; }
    bool remove_successor(receiver<int>&) override { return true; }
};

static int run_cache() {
    graph g;
    char line[1024];
    while (fgets(line, sizeof line, stdin)) {
        std::vector<std::string> w;
        { std::istringstream is(line); std::string x; while (is >> x) w.push_back(x); }
        if (w.empty()) continue;
        bool ok = (w[0] == "bc" || w[0] == "rr") && w.size() <= 65;
        for (size_t i = 1; ok && i < w.size(); ++i) ok = (w[i] == "a" || w[i] == "t" || w[i] == "f");
        if (!ok) { puts("bad-op"); fflush(stdout); continue; }
        std::vector<std::string> log;
        std::vector<std::unique_ptr<CRecv>> rs;
        for (size_t i = 1; i < w.size(); ++i) rs.emplace_back(new CRecv(g, (int)i - 1, w[i][0], &log));
        DummySender owner;
        std::string rem;
        auto remaining = [&](std::list<receiver<int>*>& l) {
            std::vector<int> v;
            for (auto* r : l) v.push_back(static_cast<CRecv*>(r)->id);
            return ids(v);
        };
        if (w[0] == "bc") {
            d2::broadcast_cache<int> c(&owner);
            for (auto& r : rs) c.register_successor(*r);
            c.try_put_task(7);
            rem = remaining(c.my_successors);
        } else {
            d2::round_robin_cache<int> c(&owner);
            for (auto& r : rs) c.register_successor(*r);
            c.try_put_task(7);
            rem = remaining(c.my_successors);
        }
        std::string o;
        if (log.empty()) o = "-"; else for (size_t i = 0; i < log.size(); ++i) { if (i) o += " "; o += log[i]; }
        printf("%s | %s\n", o.c_str(), rem.c_str());
        fflush(stdout);
    }
    return 0;
}

int main(int argc, char** argv) {
    if (argc > 1 && !strcmp(argv[1], "cache")) return run_cache();
    return run_sim();
}
