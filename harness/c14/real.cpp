// C14 E-REAL harness: real libtbb, real threads.  Implementation-side property monitors only (no model):
//   * per node: live-body counter sampled at body entry <= concurrency limit (serial: never two)
//   * every accepted message is processed exactly once by every node on its path(s); a rejected external
//     try_put is never processed; sink multiset = source multiset
//   * when wait_for_all returns: no body is live, every accepted message has been processed everywhere,
//     every reserve_wait has been released, and nothing starts afterwards
//   * after graph::cancel() / after a body threw, only the tasks already dispatched may still enter a body
//   * after cancellation / an exception every thread starts at most ONE more body (the task its dispatcher had already
//     taken), and none after wait_for_all returned / rethrew
//   * async: wait_for_all returns only after every gateway activity called release_wait and what the gateways put was
//     processed; tpw (preview build): try_put_and_wait returns only after its message went through every node on its
//     path (buffering nodes included) and does not wait for an unrelated message that is blocked in a body
// usage: real <topology> <seed> <putters> <arena> <msgs> <depth> <width> [throw:<node>:<msg> | cancel:<starts>]  -> one JSON line
#include <oneapi/tbb/flow_graph.h>
#include <oneapi/tbb/task_arena.h>
#include <oneapi/tbb/global_control.h>
#include <atomic>
#include <chrono>
#include <condition_variable>
#include <deque>
#include <cstdio>
#include <cstdlib>
#include <cstring>
#include <memory>
#include <mutex>
#include <random>
#include <string>
#include <thread>
#include <vector>
#include <unistd.h>

using namespace tbb::flow;

static std::mutex g_vm;
static std::vector<std::string> g_viol;
static void viol(const std::string& s) { std::lock_guard<std::mutex> l(g_vm); if (g_viol.size() < 20) g_viol.push_back(s); }
static std::string S(long long x) { return std::to_string(x); }

static std::atomic<bool> g_cancelled{false};      // set right after g.cancel() returned / right before a body throws (stops the putters)
static tbb::task_group_context* g_ctx = nullptr;  // the graph's context: what the dispatcher consults before execute()
static std::atomic<long> g_late{0};               // bodies entered after that
static std::atomic<long> g_bodies{0};
static std::atomic<int> g_throw_at{-1};
static std::atomic<bool> g_threw{false};           // a body really threw
static std::atomic<int> g_throw_node{0};          // index of the monitored node whose body throws (fault schedules)
static int g_spin = 200;
static std::atomic<long> g_max_thread_late{0};    // most bodies one thread started after it saw the context cancelled
static thread_local long t_late = 0;
static std::atomic<int> g_blocker{-1};            // tpw: the unrelated message whose body blocks until a tracked put returned
static std::atomic<bool> g_unblock{false};

struct Mon {
    int index = 0;
    std::string name; int limit;                  // 0 = unlimited
    std::atomic<int> live{0}; std::atomic<int> max_live{0};
    std::vector<std::atomic<unsigned short>> seen;
    std::atomic<long> starts{0};
    Mon(std::string n, int lim, int nmsg) : name(std::move(n)), limit(lim), seen(nmsg) { for (auto& a : seen) a.store(0); }
    void enter(int v) {
        int l = live.fetch_add(1) + 1;
        int m = max_live.load(); while (l > m && !max_live.compare_exchange_weak(m, l)) {}
        if (limit > 0 && l > limit) viol("concurrency-limit: node " + name + " (limit " + S(limit) + ") runs " + S(l) + " bodies at once (message " + S(v) + ")");
        starts.fetch_add(1); g_bodies.fetch_add(1);
        if (g_ctx && g_ctx->is_group_execution_cancelled()) {
            g_late.fetch_add(1);
            long mine = ++t_late, m2 = g_max_thread_late.load();
            while (mine > m2 && !g_max_thread_late.compare_exchange_weak(m2, mine)) {}
        }
        if (index == 0 && v == g_blocker.load()) { while (!g_unblock.load()) std::this_thread::yield(); }
        if (v >= 0 && v < (int)seen.size()) seen[v].fetch_add(1);
        volatile int x = 0; for (int i = 0; i < g_spin; ++i) x = x + i;
    }
    void leave() { live.fetch_sub(1); }
};

struct BodyT {
    Mon* m;
    int operator()(int v) const {
        m->enter(v);
        if (v == g_throw_at.load() && m->index == g_throw_node.load()) { g_cancelled.store(true); g_threw.store(true); m->leave(); throw 42; }
        m->leave(); return v;
    }
};
struct BodyNT { Mon* m; int operator()(int v) const noexcept { m->enter(v); m->leave(); return v; } };

struct FN {                                       // a type-erased function node
    std::unique_ptr<graph_node> holder; receiver<int>* in = nullptr; sender<int>* out = nullptr; Mon* mon = nullptr;
};
template <class P, class B> static FN mk(graph& g, size_t lim, Mon* m) {
    auto* n = new function_node<int, int, P>(g, lim, B{m});
    FN f; f.holder.reset(n); f.in = n; f.out = n; f.mon = m; return f;
}
// policy: 0 queueing, 1 rejecting, 2 queueing_lightweight, 3 rejecting_lightweight
static FN make_fn(graph& g, int limit, int policy, Mon* m) {
    size_t lim = limit == 0 ? (size_t)unlimited : (size_t)limit;
    switch (policy) {
    case 0: return mk<queueing, BodyT>(g, lim, m);
    case 1: return mk<rejecting, BodyT>(g, lim, m);
    case 2: return mk<queueing_lightweight, BodyNT>(g, lim, m);
    default: return mk<rejecting_lightweight, BodyNT>(g, lim, m);
    }
}

int main(int argc, char** argv) {
    if (argc < 8) { fprintf(stderr, "usage\n"); return 2; }
    std::string topo = argv[1];
    unsigned seed = (unsigned)strtoul(argv[2], nullptr, 10);
    int P = atoi(argv[3]), AR = atoi(argv[4]), N = atoi(argv[5]), depth = atoi(argv[6]), width = atoi(argv[7]);
    if (P < 1) P = 1; if (AR < 2) AR = 2; if (N < 1) N = 1; if (depth < 1) depth = 1; if (width < 2) width = 2;
    std::mt19937 rng(seed);
    auto pick = [&](std::initializer_list<int> l) { std::vector<int> v(l); return v[rng() % v.size()]; };
    g_spin = pick({0, 50, 200, 1000});
    tbb::global_control gc(tbb::global_control::max_allowed_parallelism, (size_t)AR + 1);
    tbb::task_arena arena(AR);
    std::unique_ptr<graph> gp;
    arena.execute([&] { gp.reset(new graph()); });
    graph& g = *gp;
    g_ctx = g.my_context;

    std::vector<std::unique_ptr<Mon>> mons;
    std::vector<FN> fns;
    std::vector<std::unique_ptr<graph_node>> extra;
    auto new_fn = [&](const std::string& name, int limit, int policy) -> FN& {
        mons.emplace_back(new Mon(name, limit, N));
        mons.back()->index = (int)mons.size() - 1;
        fns.push_back(make_fn(g, limit, policy, mons.back().get()));
        return fns.back();
    };
    // what each node must have processed when the graph is idle: expect[node][msg] relative to accepted[msg]
    std::vector<receiver<int>*> entry;            // nodes the putters put to (message i goes to entry[i % entry.size()])
    std::vector<int> mult;                        // per monitored node: how often each accepted message must be seen
    std::vector<int> entry_of_node;               // per monitored node: -1 = sees every accepted message, k = only those put to entry k
    bool entry_rejects = false;                   // the entry nodes may reject external puts
    bool expect_all = true;                       // exactly-once check applies (no cancellation / exception)
    int limiter_threshold = 0;
    std::unique_ptr<input_node<int>> inode;
    std::atomic<int> gen_next{0};
    bool use_input = false;
    bool do_cancel = false, do_reserve = false;
    bool lightweight_nodes = false;
    int cancel_after = 40;
    // async: bodies hand (value, gateway) to foreign threads which put the result back and release the gateway, some of them late
    typedef async_node<int, int> async_t;
    std::unique_ptr<async_t> anode;
    std::mutex wq_m; std::condition_variable wq_cv;
    std::deque<std::pair<int, async_t::gateway_type*>> wq;
    std::atomic<bool> in_wait{false};
    std::atomic<int> async_done{0};
    std::atomic<int> gw_reserved{0}, gw_releasing{0};
    int nforeign = 0;
    bool use_tpw = false;

    fns.reserve(64);
    if (topo == "chain" || topo == "lightweight" || topo == "cancel" || topo == "throw" || topo == "reserve") {
        for (int i = 0; i < depth + 1; ++i) {
            int lim = pick({0, 1, 1, 2, 3});
            int pol = topo == "lightweight" ? pick({0, 2, 2}) : 0;
            if (topo == "cancel" || topo == "throw") { lim = (i == 0) ? 1 : lim; pol = 0; }
            new_fn("n" + S(i), lim, pol);
            mult.push_back(1); entry_of_node.push_back(-1);
            if (i) make_edge(*fns[i - 1].out, *fns[i].in);
        }
        entry.push_back(fns[0].in);
        if (topo == "cancel") { do_cancel = true; expect_all = false; }
        if (topo == "throw") { g_throw_at.store(N / 3); expect_all = false; }
        if (topo == "reserve") do_reserve = true;
    } else if (topo == "fanout") {
        new_fn("src", pick({0, 1, 2}), 0); mult.push_back(1); entry_of_node.push_back(-1);
        for (int b = 0; b < width; ++b) {
            new_fn("b" + S(b), pick({0, 1, 2}), pick({0, 0, 2})); mult.push_back(1); entry_of_node.push_back(-1);
            make_edge(*fns[0].out, *fns[1 + b].in);
        }
        entry.push_back(fns[0].in);
    } else if (topo == "fanin") {
        for (int b = 0; b < width; ++b) { new_fn("s" + S(b), pick({0, 1, 2}), 0); mult.push_back(1); entry_of_node.push_back(b); }
        new_fn("sink", pick({1, 1, 2, 0}), 0); mult.push_back(1); entry_of_node.push_back(-1);
        for (int b = 0; b < width; ++b) { make_edge(*fns[b].out, *fns[width].in); entry.push_back(fns[b].in); }
    } else if (topo == "diamond") {
        new_fn("src", pick({0, 1, 2}), 0); mult.push_back(1); entry_of_node.push_back(-1);
        for (int b = 0; b < width; ++b) { new_fn("m" + S(b), pick({0, 1, 2}), pick({0, 2})); mult.push_back(1); entry_of_node.push_back(-1); make_edge(*fns[0].out, *fns[1 + b].in); }
        new_fn("sink", pick({1, 2, 0}), 0); mult.push_back(width); entry_of_node.push_back(-1);
        for (int b = 0; b < width; ++b) make_edge(*fns[1 + b].out, *fns[1 + width].in);
        entry.push_back(fns[0].in);
    } else if (topo == "limiter") {
        // queue -> limiter(threshold) -> func (rejecting or queueing) -> decrementer feedback ; func -> sink
        limiter_threshold = pick({1, 2, 3});
        auto* q = new queue_node<int>(g); extra.emplace_back(q);
        auto* lim = new limiter_node<int>(g, (size_t)limiter_threshold); extra.emplace_back(lim);
        new_fn("work", pick({0, 1, 2, 3}), pick({0, 1})); mult.push_back(1); entry_of_node.push_back(-1);
        new_fn("sink", 1, 0); mult.push_back(1); entry_of_node.push_back(-1);
        auto* fb = new function_node<int, continue_msg>(g, unlimited, [](int) { return continue_msg(); }); extra.emplace_back(fb);
        make_edge(*q, *lim); make_edge(*lim, *fns[0].in); make_edge(*fns[0].out, *fns[1].in);
        make_edge(*fns[0].out, *fb); make_edge(*fb, lim->decrementer());
        entry.push_back(q);
        // the limiter admits at most `threshold` messages between entering `work` and the decrement
        mons[0]->limit = mons[0]->limit == 0 ? limiter_threshold : std::min(mons[0]->limit, limiter_threshold);
    } else if (topo == "input") {
        // input_node (buffers one item, reservable) -> rejecting node with a small limit -> sink : nothing may be lost
        use_input = true;
        int NN = N;
        auto* gen = &gen_next;
        inode.reset(new input_node<int>(g, [gen, NN](tbb::flow_control& fc) -> int { int v = gen->fetch_add(1); if (v >= NN) { fc.stop(); return 0; } return v; }));
        new_fn("rej", pick({1, 1, 2}), pick({1, 1, 3})); mult.push_back(1); entry_of_node.push_back(-1);
        new_fn("sink", pick({1, 0}), 0); mult.push_back(1); entry_of_node.push_back(-1);
        make_edge(*inode, *fns[0].in); make_edge(*fns[0].out, *fns[1].in);
    } else if (topo == "rejecting") {
        if (rng() % 2) {
            // queue_node -> rejecting node: the buffer keeps what is rejected and hands it over later
            auto* q = new queue_node<int>(g); extra.emplace_back(q);
            new_fn("rej", pick({1, 2, 3}), pick({1, 3})); mult.push_back(1); entry_of_node.push_back(-1);
            new_fn("sink", pick({1, 0}), 0); mult.push_back(1); entry_of_node.push_back(-1);
            make_edge(*q, *fns[0].in); make_edge(*fns[0].out, *fns[1].in);
            entry.push_back(q);
        } else {
            // external try_put straight into a rejecting node: what is accepted is processed once, what is rejected never
            new_fn("rej", pick({1, 2, 3}), pick({1, 3})); mult.push_back(1); entry_of_node.push_back(-1);
            new_fn("sink", pick({1, 0}), 0); mult.push_back(1); entry_of_node.push_back(-1);
            make_edge(*fns[0].out, *fns[1].in);
            entry.push_back(fns[0].in); entry_rejects = true;
        }
    } else if (topo == "async") {
        // async_node -> work -> sink ; the async body only reserves the gateway and queues the value for a foreign thread
        Mon* am = new Mon("async", 0, N); mons.emplace_back(am); am->index = 0; mult.push_back(1); entry_of_node.push_back(-1);
        auto* wqp = &wq; auto* wm = &wq_m; auto* wcv = &wq_cv; auto* gres = &gw_reserved;
        anode.reset(new async_t(g, unlimited, [am, wqp, wm, wcv, gres](const int& v, async_t::gateway_type& gw) {
            am->enter(v);
            gw.reserve_wait();
            gres->fetch_add(1);
            { std::lock_guard<std::mutex> l(*wm); wqp->push_back({v, &gw}); }
            wcv->notify_one();
            am->leave();
        }));
        new_fn("work", pick({0, 1, 2}), 0); mult.push_back(1); entry_of_node.push_back(-1);
        new_fn("sink", 1, 0); mult.push_back(1); entry_of_node.push_back(-1);
        make_edge(*anode, *fns[0].in); make_edge(*fns[0].out, *fns[1].in);
        entry.push_back(anode.get());
        nforeign = pick({1, 2, 3});
#if __TBB_PREVIEW_FLOW_GRAPH_TRY_PUT_AND_WAIT
    } else if (topo == "tpw") {
        // unlimited node -> queue_node -> serial rejecting node (pulls from the queue) -> serial queueing sink
        new_fn("first", 0, 0); mult.push_back(1); entry_of_node.push_back(-1);
        auto* q = new queue_node<int>(g); extra.emplace_back(q);
        new_fn("rej", 1, 1); mult.push_back(1); entry_of_node.push_back(-1);
        new_fn("sink", 1, 0); mult.push_back(1); entry_of_node.push_back(-1);
        make_edge(*fns[0].out, *q); make_edge(*q, *fns[1].in); make_edge(*fns[1].out, *fns[2].in);
        entry.push_back(fns[0].in);
        use_tpw = true;
        if (N >= 4) g_blocker.store(1);
#endif
    } else { fprintf(stderr, "unknown topology\n"); return 2; }
    // fault schedule on any topology built from throwing bodies: `throw:<node>:<msg>` / `cancel:<starts>`
    if (argc > 8) {
        std::string f = argv[8];
        if (f.rfind("throw:", 0) == 0) {
            int node = atoi(f.c_str() + 6); size_t c2 = f.find(':', 6);
            int msg = c2 == std::string::npos ? 0 : atoi(f.c_str() + c2 + 1);
            g_throw_node.store(node % (int)mons.size()); g_throw_at.store(msg % N); expect_all = false;
        } else if (f.rfind("cancel:", 0) == 0) { do_cancel = true; cancel_after = atoi(f.c_str() + 7); expect_all = false; }
    }
    for (auto& f : fns) (void)f;
    lightweight_nodes = (topo == "lightweight" || topo == "fanout" || topo == "diamond" || topo == "input" || topo == "rejecting");

    // watchdog: a stalled graph (wait_for_all or a putter never returns) is reported, not waited for
    std::atomic<bool> finished{false};
    std::thread watchdog([&] {
        for (int i = 0; i < 1000 && !finished.load(); ++i) std::this_thread::sleep_for(std::chrono::milliseconds(10));
        if (!finished.load()) {
            printf("{\"topo\":\"%s\",\"bodies\":%ld,\"max_live\":0,\"late\":0,\"threw\":false,\"violations\":[\"hang: the run did not finish within 10 s (wait_for_all or try_put never returned; %ld bodies ran)\"]}\n",
                   topo.c_str(), g_bodies.load(), g_bodies.load());
            fflush(stdout);
            _exit(1);
        }
    });
    std::vector<std::atomic<char>> accepted(N);
    for (auto& a : accepted) a.store(0);
    std::atomic<bool> released{true};
    std::atomic<int> extra_put{0};
    std::vector<std::thread> th;
    std::thread resv_thread;
    if (do_reserve) {
        released.store(false);
        g.reserve_wait();
        unsigned s2 = rng();
        resv_thread = std::thread([&, s2] {
            std::this_thread::sleep_for(std::chrono::microseconds(200 + s2 % 3000));
            released.store(true);
            g.release_wait();
        });
    }
    std::vector<std::thread> foreign;
    for (int k = 0; k < nforeign; ++k) {
        unsigned s2 = rng();
        foreign.emplace_back([&, s2] {
            std::mt19937 r(s2);
            for (;;) {
                std::pair<int, async_t::gateway_type*> job;
                {
                    std::unique_lock<std::mutex> l(wq_m);
                    wq_cv.wait(l, [&] { return !wq.empty() || async_done.load() >= N; });
                    if (wq.empty()) return;
                    job = wq.front(); wq.pop_front();
                }
                unsigned d = r() % 8;
                if (d == 0) { while (!in_wait.load()) std::this_thread::yield(); std::this_thread::sleep_for(std::chrono::microseconds(r() % 2000)); }   // late: the main thread is already in wait_for_all
                else if (d < 4) std::this_thread::sleep_for(std::chrono::microseconds(r() % 300));
                if (!job.second->try_put(job.first)) viol("gateway-put-rejected: gateway.try_put(" + S(job.first) + ") returned false although the successor is queueing");
                if (r() % 4 == 0) std::this_thread::yield();
                gw_releasing.fetch_add(1);
                job.second->release_wait();
                if (async_done.fetch_add(1) + 1 >= N) wq_cv.notify_all();
            }
        });
    }
    if (use_input) {
        inode->activate();
        for (int i = 0; i < N; ++i) accepted[i].store(1);
    } else {
        int per = (N + P - 1) / P;
        for (int t = 0; t < P; ++t) {
            unsigned s2 = rng();
            th.emplace_back([&, t, s2, per] {
                std::mt19937 r(s2);
                for (int i = t * per; i < std::min(N, (t + 1) * per); ++i) {
                    if (g_cancelled.load() && !do_reserve) break;          // a cancelled graph must be reset before it is fed again
                    bool ok;
#if __TBB_PREVIEW_FLOW_GRAPH_TRY_PUT_AND_WAIT
                    if (use_tpw && i % 3 == 0 && i != g_blocker.load()) {
                        ok = entry[0]->try_put_and_wait(i);
                        // the call returned: the message must have been processed by every node on its path
                        for (auto& m : mons) if (ok && m->seen[i].load() == 0)
                            viol("tpw-early-return: try_put_and_wait(" + S(i) + ") returned before node " + m->name + " processed the message");
                        g_unblock.store(true);
                    } else
#endif
                    ok = entry[i % entry.size()]->try_put(i);
                    accepted[i].store(ok ? 1 : 0);
                    if (!ok && !entry_rejects) viol("rejected-by-accepting-node: try_put(" + S(i) + ") returned false on a queueing/unlimited/buffering entry node");
                    if (r() % 8 == 0) std::this_thread::yield();
                }
            });
        }
    }
    if (do_cancel) {
        // cancel once a third of the messages went through the first node
        auto t0 = std::chrono::steady_clock::now();
        while (mons[0]->starts.load() < N / 3 && mons[0]->starts.load() < cancel_after &&
               std::chrono::steady_clock::now() - t0 < std::chrono::seconds(2)) std::this_thread::yield();
        g.cancel();
        g_cancelled.store(true);
    }
    for (auto& t : th) t.join();
    g_unblock.store(true);
    bool threw = false;
    in_wait.store(true);
    try { g.wait_for_all(); } catch (...) { threw = true; }
    if (nforeign && gw_releasing.load() < gw_reserved.load())
        viol("wait-not-idle: wait_for_all returned while " + S(gw_reserved.load() - gw_releasing.load()) + " gateway activities had not called release_wait");
    async_done.store(N); wq_cv.notify_all();
    for (auto& t : foreign) t.join();
    // ---- wait_for_all returned: the graph must be idle
    if (!released.load()) viol("wait-not-idle: wait_for_all returned before release_wait was called");
    long starts_at_return = g_bodies.load();
    for (auto& m : mons) if (m->live.load() != 0) viol("wait-not-idle: wait_for_all returned while " + S(m->live.load()) + " body(ies) of node " + m->name + " are running");
    if (resv_thread.joinable()) resv_thread.join();
    std::this_thread::sleep_for(std::chrono::milliseconds(2));
    if (g_bodies.load() != starts_at_return) viol("wait-not-idle: " + S(g_bodies.load() - starts_at_return) + " body(ies) started after wait_for_all returned");
    if (g_throw_at.load() >= 0) {
        bool reached = g_threw.load();
        if (reached && !threw) viol("exception-lost: a body threw but wait_for_all did not rethrow");
        if (reached && !g.exception_thrown()) viol("exception-lost: exception_thrown() is false");
    }
    if (do_cancel && !g.is_cancelled()) viol("cancel-lost: is_cancelled() is false after cancel()");
    long allowed_late = AR + P + 2;
    if (topo == "lightweight" || lightweight_nodes) allowed_late += 1000000;
    if (!lightweight_nodes && g_max_thread_late.load() > 1)
        viol("body-after-cancel: one thread started " + S(g_max_thread_late.load()) + " bodies after it saw the context cancelled (only the task it had already taken may still run)");
    if (g_late.load() > allowed_late) viol("body-after-cancel: " + S(g_late.load()) + " bodies started after cancellation/exception (at most " + S(allowed_late) + " tasks were already dispatched)");
    // ---- exactly once
    long max_live = 0;
    for (size_t k = 0; k < mons.size(); ++k) {
        Mon& m = *mons[k];
        max_live = std::max<long>(max_live, m.max_live.load());
        for (int i = 0; i < N; ++i) {
            int seen = m.seen[i].load();
            bool mine = entry_of_node[k] < 0 || (int)(i % std::max<size_t>(1, entry.size())) == entry_of_node[k];
            int want = (accepted[i].load() && mine) ? mult[k] : 0;
            if (seen > want) { viol("duplicate-or-phantom: node " + m.name + " processed message " + S(i) + " " + S(seen) + " time(s), expected " + S(want) + (accepted[i].load() ? "" : " (its try_put was rejected)")); break; }
            if (expect_all && seen < want) { viol("lost-message: node " + m.name + " processed message " + S(i) + " " + S(seen) + " time(s), expected " + S(want) + " (graph idle after wait_for_all)"); break; }
        }
    }
    std::string js = "{\"topo\":\"" + topo + "\",\"bodies\":" + S(g_bodies.load()) + ",\"max_live\":" + S(max_live) + ",\"late\":" + S(g_late.load()) +
                     ",\"threw\":" + (threw ? "true" : "false") + ",\"violations\":[";
    for (size_t i = 0; i < g_viol.size(); ++i) { if (i) js += ","; js += "\""; for (char c : g_viol[i]) { if (c == '"' || c == '\\') js += '\\'; js += c; } js += "\""; }
    js += "]}";
    puts(js.c_str());
    fflush(stdout);
    finished.store(true);
    watchdog.join();
    // a graph that was cancelled must be reset before destruction is safe for queued items; reset is cheap
    if (!expect_all) { try { g.reset(); } catch (...) {} }
    fns.clear(); extra.clear(); inode.reset(); anode.reset();
    arena.execute([&] { gp.reset(); });
    return g_viol.empty() ? 0 : 1;
}
