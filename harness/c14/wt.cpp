// C14 (b) E-SHIM harness: the REAL d1::wait_context_vertex (the graph's vertex) with REAL per-thread
// d1::reference_vertex children under the controlled scheduler: every atomic access is a scheduling point, N real
// threads, seeded random schedules.  Each thread runs a random program of
//   R  construct a task in the arena   (own reference_vertex::reserve)
//   L  finalize a fully constructed task of some thread u (reference_vertex u ::release)
//   W/X  reserve_wait / release_wait   (root reserve / release)         F/G  foreign-created task / its finalize
//   T  wait_for_all's test (continue_execution())
// Output per run: the trace as lines `<op> [u] <value read>` (one per ATOMIC ACCESS, in schedule order) which the Lean
// model `c14wt` replays (it must read the same values), and the implementation-side monitor verdict: a test T that
// reads 0 while a completed reservation / a fully constructed task is outstanding is an early return of wait_for_all.
// usage: wt <seed0> <nseeds> <threads> <ops per thread>        (no libtbb: header classes only)
#include "oneapi/tbb/detail/_task.h"
#include <cstdio>
#include <cstdlib>
#include <string>
#include <vector>

namespace tbb { namespace detail { namespace r1 {
void __TBB_EXPORTED_FUNC notify_waiters(std::uintptr_t) {}
}}}
using namespace tbb::detail;

struct Rng { uint64_t s; uint64_t next() { s ^= s << 13; s ^= s >> 7; s ^= s << 17; return s; } };

int main(int argc, char** argv) {
    verif::init_determinism(argc, argv);
    if (argc < 5) return 2;
    uint64_t seed0 = strtoull(argv[1], nullptr, 10);
    int nseeds = atoi(argv[2]), T = atoi(argv[3]), NOPS = atoi(argv[4]);
    if (T < 1 || T > 8 || NOPS < 1 || NOPS > 64) return 2;
    for (int si = 0; si < nseeds; ++si) {
        uint64_t seed = seed0 + (uint64_t)si;
        Rng rng{seed * 0x9E3779B97F4A7C15ull + 0xABCDEFull};
        std::vector<std::vector<int>> prog(T);
        for (int t = 0; t < T; ++t) for (int i = 0; i < NOPS; ++i) {
            int r = (int)(rng.next() % 16);
            prog[t].push_back(r < 5 ? 'R' : r < 9 ? 'L' : r < 10 ? 'W' : r < 11 ? 'X' : r < 12 ? 'F' : r < 13 ? 'G' : 'T');
        }
        d1::wait_context_vertex root(0);
        std::vector<d1::reference_vertex*> vs;
        for (int t = 0; t < T; ++t) vs.push_back(new d1::reference_vertex(&root, 0));
        std::vector<int> avail(T, 0);
        int wres = 0, ftasks = 0;
        std::string err;
        std::vector<std::function<void()>> bodies;
        for (int t = 0; t < T; ++t) bodies.push_back([&, t] {
            unsigned k = (unsigned)t;
            for (int op : prog[t]) {
                ++k;
                if (op == 'R') { verif::note("R", (uint64_t)t); vs[t]->reserve(); avail[t]++; }
                else if (op == 'L') {
                    int u = -1;
                    for (int j = 0; j < T; ++j) { int c = (int)((k + j) % (unsigned)T); if (avail[c] > 0) { u = c; break; } }
                    if (u < 0) continue;
                    avail[u]--; verif::note("L", (uint64_t)u); vs[u]->release();
                }
                else if (op == 'W') { verif::note("W"); root.reserve(); wres++; }
                else if (op == 'X') { if (wres > 0) { wres--; verif::note("X"); root.release(); } }
                else if (op == 'F') { verif::note("F"); root.reserve(); ftasks++; }
                else if (op == 'G') { if (ftasks > 0) { ftasks--; verif::note("G"); root.release(); } }
                else {
                    verif::note("T");
                    bool cont = root.continue_execution();
                    if (!cont) {
                        int out = wres + ftasks; for (int c : avail) out += c;
                        if (out && err.empty()) err = "VIOLATION wait_for_all's test read reference count 0 while " + std::to_string(wres) + " reserve_wait(s), " +
                            std::to_string(ftasks) + " foreign-created task(s) and " + std::to_string(out - wres - ftasks) + " arena task(s) are outstanding";
                    }
                }
            }
        });
        verif::RandomSchedule sch(seed, 64);
        verif::Result r = verif::run(bodies, sch);
        if (r.deadlock && err.empty()) err = "DEADLOCK";
        const void* ra = (const void*)&root.m_wait.m_ref_count;
        printf("run %llu %d\n", (unsigned long long)seed, T);
        std::vector<std::string> cur(T + 1, "");
        std::vector<long long> arg(T + 1, 0);
        for (auto& e : r.log) {
            if (e.tid < 0 || e.tid > T) continue;
            if (e.kind == verif::K_NOTE && e.tag) { cur[e.tid] = e.tag; arg[e.tid] = (long long)e.a; continue; }
            if (e.kind > verif::K_FXOR) continue;
            int child = -1;
            for (int t = 0; t < T; ++t) if (e.addr == (const void*)&vs[t]->m_ref_count) child = t;
            const std::string& op = cur[e.tid];
            if (child >= 0) {
                if (e.kind == verif::K_FADD) printf("R %d %lld\n", child, (long long)e.a);
                else if (e.kind == verif::K_FSUB) printf("L %d %lld\n", child, (long long)e.a);
            } else if (e.addr == ra) {
                if (e.kind == verif::K_LOAD) { if (op == "T") printf("T %lld\n", (long long)e.a); }
                else if (op == "R") printf("P %lld %lld\n", arg[e.tid], (long long)e.a);
                else if (op == "L") printf("Q %lld\n", (long long)e.a);
                else printf("%s %lld\n", op.c_str(), (long long)e.a);
            }
        }
        printf("final %lld\n", (long long)root.m_wait.m_ref_count.a.load());
        printf("mon %s\n", err.empty() ? "ok" : err.c_str());
        printf("sched"); for (int s : r.schedule) printf(" %d", s); printf("\nend\n");
        fflush(stdout);
        if (r.deadlock) _exit(3);
        for (auto* v : vs) delete v;
    }
    return 0;
}
