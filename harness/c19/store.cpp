// C19 E-SHIM harness for the STORAGE of enumerable_thread_specific / combinable elements with initialiser and allocation
// faults (real header code of /repo under the controlled scheduler; header-only, r1 stubs).
// usage: store <rand|replay> <arg> [nruns]      scenario on stdin:
//   threads <n0> <n1> ...     one controlled thread per entry, thread i performs n_i calls of local(exists)
//   kind <k>                  0 functor initialiser (finit) | 1 exemplar copy | 2 default constructor | 3 combinable (functor)
//   ifault <t>:<j> ...        the j-th create_local (0-based) of thread t: its initialiser throws
//   afault <t>:<j> ...        ... : every allocation made by my_locals during that call throws std::bad_alloc
//   quiet
// Per run prints
//   run <i>
//   c <tid> <pos> <g|b> [<index>]     in trace order: b = a local() call begins, g = its grow_by(1) took <index> of my_locals
//   res <tid> <outcome of each call: e<index>:<exists> | xi (initialiser's exception) | xa (bad_alloc)>
//   fin <size()> | <per index of my_locals up to my_size: owner:is_built (owner ? when never constructed)> | <my_count> |
//       <elements visited by iteration> <by combine_each> <by range()> | <value destructors run by clear()>
//   flat <items visited by flattened2d over the per-thread inner containers, in order> | <expected>
//   mon ok | VIOLATION <what> | DEADLOCK     implementation-side monitors (independent of the Lean model)
//   sched <tids> / end
#include <oneapi/tbb/enumerable_thread_specific.h>
#include <oneapi/tbb/combinable.h>
#include <cstdio>
#include <cstring>
#include <map>
#include <new>
#include <set>
#include <sstream>
#include <stdexcept>
#include <string>
#include <vector>

static std::vector<int> g_lookups;
static std::set<std::pair<int, int>> g_ifault, g_afault;
static int g_kind = 0;
static bool g_quiet = false;

static thread_local int tl_tid = -1;
static thread_local bool tl_fail_alloc = false;
static int g_ctor = 0, g_dtor = 0, g_live = 0;
static std::vector<int>* g_creates = nullptr;        // per thread: create_local calls begun (incremented when the initialiser / allocator is reached)
static std::string* g_err = nullptr;
static void fail(const std::string& s) { if (g_err && g_err->empty()) *g_err = s; }

struct init_exc { int tid; };
static const long MAGIC = 0x600DC0DE;

struct Elem {
    long magic; int owner;
    Elem() : magic(MAGIC), owner(tl_tid) { maybe_throw(); g_ctor++; g_live++; }
    Elem(const Elem&) : magic(MAGIC), owner(tl_tid) { maybe_throw(); g_ctor++; g_live++; }
    explicit Elem(int) : magic(MAGIC), owner(-2) { g_ctor++; g_live++; }          // the exemplar itself
    ~Elem() { if (magic != MAGIC) fail("destructor runs on a never-constructed element"); magic = 0xDEAD; g_dtor++; g_live--; }
    static void maybe_throw() {
        if (tl_tid < 0) return;
        int j = (*g_creates)[tl_tid];
        if (g_ifault.count({tl_tid, j})) throw init_exc{tl_tid};
    }
};

template <class T> struct FA {
    using value_type = T;
    FA() = default; template <class U> FA(const FA<U>&) {}
    T* allocate(std::size_t n) {
        if (tl_fail_alloc && sizeof(T) >= sizeof(Elem)) throw std::bad_alloc();
        return static_cast<T*>(::operator new(n * sizeof(T), std::align_val_t(128)));
    }
    void deallocate(T* p, std::size_t) { ::operator delete(p, std::align_val_t(128)); }
    template <class U> bool operator==(const FA<U>&) const { return true; }
    template <class U> bool operator!=(const FA<U>&) const { return false; }
};

using ETS = tbb::enumerable_thread_specific<Elem, FA<Elem>, tbb::ets_no_key>;
using ETS2 = tbb::enumerable_thread_specific<std::vector<int>>;

static bool run_once(verif::Schedule& sch, int run_idx) {
    size_t T = g_lookups.size();
    std::string err; g_err = &err;
    std::vector<int> creates(T, 0); g_creates = &creates;
    g_ctor = g_dtor = g_live = 0;
    tl_tid = -1;
    Elem exemplar(0);
    ETS* ets;
    auto finit = [] { return Elem(); };
    if (g_kind == 1) ets = new ETS(exemplar); else if (g_kind == 2) ets = new ETS(); else ets = new ETS(finit);
    ETS2 ets2;
    std::atomic<int> gate{0};
    std::vector<std::vector<std::string>> res(T);
    int base_live = g_live;
    std::vector<const Elem*> mine(T, nullptr);
    verif::clear_names();
    const void* size_addr = (const void*)&ets->my_locals.my_size;
    std::vector<std::function<void()>> bodies;
    for (size_t t = 0; t < T; ++t) bodies.push_back([&, t] {
        tl_tid = (int)t;
        // allocation faults: the faulting first call of thread 0 runs alone (a failing allocation that RACES with the first-block
        // election of other growers is concurrent_vector's own known finding, C11 `fault:alloc-throw:first-block:*`)
        if (!g_afault.empty() && t != 0) while (gate.load() == 0) verif::pause_point();
        { std::vector<int>& in = ets2.local(); for (size_t q = 0; q < (t * 7 + 1) % 3; ++q) in.push_back((int)(t * 10 + q)); }
        for (int c = 0; c < g_lookups[t]; ++c) {
            verif::note("begin", t, c);
            tl_fail_alloc = !mine[t] && g_afault.count({(int)t, creates[t]}) != 0;
            struct Open { std::atomic<int>& g; bool on; ~Open() { if (on) g.store(1); } } open_gate{gate, t == 0 && c == 0};
            bool ex = false;
            try {
                Elem& e = ets->local(ex);
                tl_fail_alloc = false;
                if (e.magic != MAGIC) fail("local() of thread " + std::to_string(t) + " returned a never-constructed element");
                else if (e.owner != (int)t) fail("local() of thread " + std::to_string(t) + " returned an element constructed by thread " + std::to_string(e.owner));
                if (mine[t] && mine[t] != &e) fail("local() of thread " + std::to_string(t) + " changed address");
                if (ex != (mine[t] != nullptr)) fail("exists flag of thread " + std::to_string(t) + " is " + std::to_string(ex) + " on its " + (mine[t] ? "repeated" : "first successful") + " access");
                if (!mine[t]) creates[t]++;
                mine[t] = &e;
                verif::note("ret", t, (uint64_t)(uintptr_t)&e);
                res[t].push_back(std::string("e@") + (ex ? "1" : "0"));
            } catch (const init_exc&) {
                tl_fail_alloc = false; creates[t]++;
                res[t].push_back("xi");
            } catch (const std::bad_alloc&) {
                tl_fail_alloc = false; creates[t]++;
                res[t].push_back("xa");
            }
        }
        tl_tid = -1;
    });
    verif::Result r = verif::run(bodies, sch, 400000);
    tl_tid = -1;
    // ---- the trace: call begins and grow_by(1) index hand-outs, in order ----
    std::vector<std::string> lines;
    size_t pos = 0;
    for (auto& e : r.log) {
        char buf[128];
        if (e.kind == verif::K_NOTE && e.tag && !strcmp(e.tag, "begin")) { snprintf(buf, sizeof buf, "c %d %zu b", e.tid, pos++); lines.push_back(buf); }
        else if (e.addr == size_addr && (e.kind == verif::K_FADD || (e.kind == verif::K_CAS && e.ok))) {
            snprintf(buf, sizeof buf, "c %d %zu g %llu", e.tid, pos++, (unsigned long long)e.a); lines.push_back(buf);
        }
    }
    std::string fin, flat;
    bool broken = false;
    if (!r.deadlock) {
        // ---- white-box final state ----
        size_t raw = ets->my_locals.my_size.a.load();
        size_t sz = ets->size();
        std::map<const Elem*, int> index_of;
        std::ostringstream os;
        os << sz << " |";
        for (size_t i = 0; i < raw; ++i) {
            if (i >= sz) { os << " ?:-"; continue; }
            auto& pe = ets->my_locals[i];
            const Elem* v = pe.value();
            index_of[v] = (int)i;
            os << " " << (pe.is_built ? std::to_string(v->owner) : std::string("?")) << ":" << (pe.is_built ? 1 : 0);
            if (pe.is_built && v->magic != MAGIC) fail("element " + std::to_string(i) + " is marked built but was never constructed");
        }
        os << " | " << ets->my_count.a.load() << " |";
        // ---- traversals ----
        int n_it = 0, n_each = 0, n_rng = 0, dead_it = 0;
        for (auto& e : *ets) { n_it++; (void)e; }
        for (size_t i = 0; i < sz; ++i) if (!ets->my_locals[i].is_built) dead_it++;
        ets->combine_each([&](const Elem& e) { n_each++; (void)e; });
        for (auto& e : ets->range()) { n_rng++; (void)e; }
        os << " " << n_it << " " << n_each << " " << n_rng;
        int have = 0; for (size_t t = 0; t < T; ++t) if (mine[t]) have++;
        if (dead_it) fail("iteration visits " + std::to_string(dead_it) + " never-constructed element(s) left behind by a throwing initialiser: size() = " + std::to_string(sz) + ", threads with an element = " + std::to_string(have));
        bool has_xa = false; for (auto& v : res) for (auto& o : v) if (o == "xa") has_xa = true;
        if (!dead_it && n_it != have && !has_xa) fail("iteration visits " + std::to_string(n_it) + " elements, threads with an element = " + std::to_string(have));
        for (size_t t = 0; t < T; ++t) if (mine[t] && !index_of.count(mine[t])) fail("elements beyond a failed allocation are not reached by iteration: the element of thread " + std::to_string(t) + " (size() = " + std::to_string(sz) + ")");
        // results with indices
        for (size_t t = 0; t < T; ++t) for (auto& s : res[t]) if (s[0] == 'e') { auto it = index_of.find(mine[t]); s = "e" + (it == index_of.end() ? std::string("?") : std::to_string(it->second)) + ":" + s.substr(2); }
        // ---- flattened2d over an ETS of containers: every inner element once, empty inner containers skipped ----
        {
            std::ostringstream f, x;
            auto f2d = tbb::flatten2d(ets2);
            size_t n = 0;
            for (auto it = f2d.begin(); it != f2d.end(); ++it) { f << " " << *it; n++; }
            bool first = true; size_t tot = 0;
            for (auto& in : ets2) { x << (first ? "" : ";"); first = false; bool f1 = true; for (int v : in) { x << (f1 ? "" : ",") << v; f1 = false; tot++; } }
            if (n != tot || f2d.size() != tot) fail("flattened2d visits " + std::to_string(n) + " items (size() " + std::to_string(f2d.size()) + "), the inner containers hold " + std::to_string(tot));
            flat = f.str() + " | " + x.str();
        }
        // after a failed allocation of my_locals the vector is "broken": concurrent_vector::clear() / the destructor walk into the
        // failed segment (observed: SIGSEGV in destroy_elements) — C11's domain; such a container is leaked here, not cleared
        for (auto& v : res) for (auto& o : v) if (o == "xa") broken = true;
        int live_before = g_live;
        if (!broken) ets->clear();
        if (broken) os << " | -"; else os << " | " << (live_before - g_live);
        if (!broken && g_live != base_live) fail("after clear() " + std::to_string(g_live - base_live) + " constructed element(s) were not destroyed");
        fin = os.str();
    }
    if (!broken) delete ets;
    bool ok = err.empty() && !r.deadlock;
    if (!g_quiet || !ok) {
        printf("run %d\n", run_idx);
        for (auto& l : lines) puts(l.c_str());
        for (size_t t = 0; t < T; ++t) { printf("res %zu", t); for (auto& s : res[t]) printf(" %s", s.c_str()); printf("\n"); }
        printf("fin %s\n", fin.c_str());
        printf("flat%s\n", flat.c_str());
        printf("mon %s%s\n", err.empty() ? (r.deadlock ? "DEADLOCK" : "ok") : "VIOLATION ", err.c_str());
        printf("sched"); for (int s : r.schedule) printf(" %d", s); printf("\nend\n");
        fflush(stdout);
    }
    if (r.deadlock) { fflush(stdout); _exit(3); }
    return ok;
}

static void parse_pairs(std::istringstream& is, std::set<std::pair<int, int>>& out) {
    std::string w;
    while (is >> w) { size_t c = w.find(':'); if (c != std::string::npos) out.insert({atoi(w.substr(0, c).c_str()), atoi(w.substr(c + 1).c_str())}); }
}

int main(int argc, char** argv) {
    if (argc < 3) return 2;
    char line[1 << 16];
    while (fgets(line, sizeof line, stdin)) {
        std::istringstream is(line); std::string w; is >> w;
        if (w == "threads") { int c; while (is >> c) g_lookups.push_back(c); }
        else if (w == "kind") is >> g_kind;
        else if (w == "ifault") parse_pairs(is, g_ifault);
        else if (w == "afault") parse_pairs(is, g_afault);
        else if (w == "quiet") g_quiet = true;
    }
    std::string mode = argv[1];
    long maxruns = argc > 3 ? atol(argv[3]) : 1, runs = 0, bad = 0;
    if (mode == "rand") {
        unsigned long long seed = strtoull(argv[2], 0, 10);
        for (long i = 0; i < maxruns; ++i) { verif::RandomSchedule s(seed * 7919 + i, 32 + (int)(i % 4) * 64); if (!run_once(s, (int)i)) bad++; runs++; }
    } else if (mode == "replay") {
        verif::ReplaySchedule s; std::stringstream ss(argv[2]); std::string tok;
        while (std::getline(ss, tok, ',')) if (!tok.empty()) s.tids.push_back(atoi(tok.c_str()));
        if (!run_once(s, 0)) bad++; runs++;
    }
    printf("summary runs=%ld bad=%ld\n", runs, bad);
    return bad ? 1 : 0;
}
