// C19 E-SHIM harness for enumerable_thread_specific / combinable (real header code of /repo under the controlled
// scheduler; every atomic access of ets_base::table_lookup is a scheduling point).
// usage: ets <rand|dfs|replay> <arg> [maxruns]     scenario on stdin:
//   kind <0|1|2>        0 = enumerable_thread_specific<Elem> whose per-thread keys are CHOSEN by the scenario (a harness
//                           specialisation of ets_key_selector; std::hash<size_t> is the identity, so the scenario
//                           controls every start index: collisions, wrap-around at the end of an array, ...)
//                       1 = enumerable_thread_specific<Elem>   (default ets_no_key: std::thread::id keys, real hashes)
//                       2 = combinable<Elem>
//   threads <n0> <n1> ...   lookups (`local()` calls) performed by thread i
//   keys <k0> <k1> ...      kind 0: the 64-bit keys (decimal, non-zero, distinct)
//   quiet                   print only failing runs
// Per run prints
//   run <i>
//   info hashes <h0> <h1> ...                 std::hash of every thread's key (input of the Lean model)
//   e <tid> <kind> <var> <a> <b> <ok>         accesses to my_root (array pointers as 1+position in the chain counted from
//                                             the oldest, 0 = nullptr), my_count, slot keys (var = key:<array>:<slot>,
//                                             key values as 1+owning thread, 0 = empty), in execution order
//   res <tid> <ptr:exists of each lookup>     ptr = <creator+1>.<n-th element of that creator>
//   fin <#arrays> <lg sizes oldest first> | <my_count> | <creators+1 in iteration order>
//   mon ok | VIOLATION <what> | DEADLOCK
//   sched <tids> / end
#include <oneapi/tbb/enumerable_thread_specific.h>
#include <oneapi/tbb/combinable.h>
#include <sys/personality.h>
#include <cstdio>
#include <cstring>
#include <map>
#include <set>
#include <sstream>
#include <string>
#include <vector>

namespace d1 = tbb::detail::d1;

static std::vector<std::size_t> g_keys;      // kind 0
static constexpr d1::ets_key_usage_type CHOSEN = (d1::ets_key_usage_type)7;
namespace tbb { namespace detail { namespace d1 {
template <> struct ets_key_selector<CHOSEN> {
    using key_type = std::size_t;
    static key_type current_key() { return g_keys[verif::self()]; }
};
}}}

struct Reg { const void* addr; int creator; };
static std::vector<Reg>* g_reg = nullptr;    // construction registry of the current run
struct Elem {
    int owner; long hits;
    Elem() : owner(verif::self()), hits(0) { if (g_reg) g_reg->push_back(Reg{this, verif::self()}); }
};

static int g_kind = 0;
static std::vector<int> g_todo;
static bool g_quiet = false;

template <class C> struct Acc;     // white-box access to the ets_base of a container
template <class T, class A, d1::ets_key_usage_type K> struct Acc<tbb::enumerable_thread_specific<T, A, K>> {
    using base = d1::ets_base<K>;
    static base& get(tbb::enumerable_thread_specific<T, A, K>& c) { return (base&)c; }
    template <class F> static void each(tbb::enumerable_thread_specific<T, A, K>& c, F f) { for (auto it = c.begin(); it != c.end(); ++it) f(*it); }
    static size_t size(tbb::enumerable_thread_specific<T, A, K>& c) { return c.size(); }
};
template <class T> struct Acc<tbb::combinable<T>> {
    using ets_t = typename tbb::combinable<T>::my_ets_type;
    using base = typename Acc<ets_t>::base;
    static base& get(tbb::combinable<T>& c) { return Acc<ets_t>::get(c.my_ets); }
    template <class F> static void each(tbb::combinable<T>& c, F f) { c.combine_each([&](T& x) { f(x); }); }
    static size_t size(tbb::combinable<T>& c) { return c.my_ets.size(); }
};

template <class C, class KeyOf>
static bool run_once(verif::Schedule& sch, int run_idx, bool print, KeyOf key_of_self) {
    using A = Acc<C>;
    using base = typename A::base;
    size_t T = g_todo.size();
    std::vector<Reg> reg;
    g_reg = &reg;
    C cont;
    base& b = A::get(cont);
    std::vector<std::uint64_t> keybits(T, 0), hashes(T, 0);
    std::vector<std::vector<std::pair<const void*, bool>>> res(T);
    std::string err;
    auto fail = [&](const std::string& s) { if (err.empty()) err = s; };

    verif::clear_names();
    std::vector<std::function<void()>> bodies;
    for (size_t t = 0; t < T; ++t) bodies.push_back([&, t] {
        auto k = key_of_self();
        std::uint64_t kb = 0; std::memcpy(&kb, &k, sizeof k < 8 ? sizeof k : 8);
        keybits[t] = kb;
        hashes[t] = std::hash<decltype(k)>{}(k);
        for (int c = 0; c < g_todo[t]; ++c) {
            bool exists = false;
            Elem& e = cont.local(exists);
            if (e.owner != (int)t) fail("thread " + std::to_string(t) + " got an element constructed by thread " + std::to_string(e.owner));
            e.hits++;
            if (!res[t].empty() && res[t][0].first != (const void*)&e) fail("local() of thread " + std::to_string(t) + " changed address between calls");
            if (exists != !res[t].empty()) fail(std::string("exists flag wrong for thread ") + std::to_string(t) + " call " + std::to_string(c));
            res[t].push_back({(const void*)&e, exists});
        }
    });
    verif::Result r = verif::run(bodies, sch, 2000000);
    g_reg = nullptr;

    // ---- canonical names ----
    std::map<const void*, std::string> pname;         // element address -> "<creator+1>.<n>"
    std::vector<int> ncreated(T, 0);
    for (auto& g : reg) { char buf[32]; snprintf(buf, sizeof buf, "%d.%d", g.creator + 1, g.creator >= 0 && g.creator < (int)T ? ncreated[g.creator]++ : 0); pname[g.addr] = buf; }
    std::map<std::uint64_t, int> key_owner;
    for (size_t t = 0; t < T; ++t) if (g_todo[t] > 0) key_owner[keybits[t]] = (int)t;
    std::vector<typename base::array*> chain;          // newest first
    for (auto* a = b.my_root.a.load(); a; a = a->next) chain.push_back(a);
    size_t NA = chain.size();
    std::map<const void*, std::pair<int, size_t>> slot_of;
    std::map<std::uint64_t, int> arr_id;              // array address -> 1 + position from the oldest
    for (size_t j = 0; j < NA; ++j) {
        auto* a = chain[j];
        int id = (int)(NA - 1 - j);
        arr_id[(std::uint64_t)(std::uintptr_t)a] = id + 1;
        for (size_t k = 0; k < a->size(); ++k) slot_of[(const void*)&a->at(k).key] = {id, k};
    }
    auto arr_name = [&](std::uint64_t v) -> std::string {
        if (!v) return "0";
        auto it = arr_id.find(v);
        return it == arr_id.end() ? "?" : std::to_string(it->second);
    };
    auto key_name = [&](std::uint64_t v) -> std::string {
        if (!v) return "0";
        auto it = key_owner.find(v);
        return it == key_owner.end() ? "?" : std::to_string(it->second + 1);
    };

    // ---- implementation-side monitors ----
    if (!r.deadlock) {
        std::set<const void*> seen;
        for (size_t t = 0; t < T; ++t) {
            if ((int)res[t].size() != g_todo[t]) fail("a lookup did not finish");
            if (g_todo[t] > 0) {
                if (ncreated[t] != 1) fail("thread " + std::to_string(t) + " ran the initialiser " + std::to_string(ncreated[t]) + " times");
                if (!res[t].empty() && !seen.insert(res[t][0].first).second) fail("two threads share an element");
                if (!res[t].empty() && ((const Elem*)res[t][0].first)->hits != g_todo[t]) fail("element of thread " + std::to_string(t) + " was also used by another thread");
            } else if (ncreated[t] != 0) fail("initialiser ran for a thread that never called local()");
        }
        // iteration / combine_each visits every thread's element exactly once
        std::map<const void*, int> visits;
        A::each(cont, [&](Elem& e) { visits[(const void*)&e]++; });
        size_t users = 0; for (size_t t = 0; t < T; ++t) if (g_todo[t] > 0) users++;
        for (size_t t = 0; t < T; ++t) if (g_todo[t] > 0 && !res[t].empty() && visits[res[t][0].first] != 1)
            fail("iteration visits the element of thread " + std::to_string(t) + " " + std::to_string(visits[res[t][0].first]) + " times");
        if (visits.size() != users || A::size(cont) != users) fail("iteration visits " + std::to_string(visits.size()) + " elements, size() = " + std::to_string(A::size(cont)) + ", threads that used the container: " + std::to_string(users));
        if (b.my_count.a.load() != users) fail("my_count = " + std::to_string(b.my_count.a.load()) + " but " + std::to_string(users) + " threads used the container");
    }

    bool ok = err.empty() && !r.deadlock;
    if ((print && !g_quiet) || !ok) {
        printf("run %d\n", run_idx);
        printf("info hashes"); for (size_t t = 0; t < T; ++t) printf(" %llu", (unsigned long long)hashes[t]); printf("\n");
        const void* ra = (const void*)&b.my_root; const void* ca = (const void*)&b.my_count;
        for (auto& e : r.log) {
            if (e.kind > verif::K_FXOR || !e.addr) continue;
            if (e.addr == ra) {
                if (e.kind == verif::K_LOAD) printf("e %d load root %s 0 1\n", e.tid, arr_name(e.a).c_str());
                else printf("e %d %s root %s %s %d\n", e.tid, verif::kind_name(e.kind), arr_name(e.a).c_str(), arr_name(e.b).c_str(), e.ok);
            } else if (e.addr == ca) {
                printf("e %d %s count %llu %llu %d\n", e.tid, verif::kind_name(e.kind), (unsigned long long)e.a, (unsigned long long)e.b, e.ok);
            } else {
                auto it = slot_of.find(e.addr);
                if (it == slot_of.end()) continue;                 // my_locals (concurrent_vector) internals etc.
                if (e.kind == verif::K_LOAD) printf("e %d load key:%d:%zu %s 0 1\n", e.tid, it->second.first, it->second.second, key_name(e.a).c_str());
                else printf("e %d %s key:%d:%zu %s %s %d\n", e.tid, verif::kind_name(e.kind), it->second.first, it->second.second, key_name(e.a).c_str(), key_name(e.b).c_str(), e.ok);
            }
        }
        for (size_t t = 0; t < T; ++t) {
            printf("res %zu", t);
            for (auto& p : res[t]) { auto it = pname.find(p.first); printf(" %s:%d", it == pname.end() ? "?" : it->second.c_str(), p.second ? 1 : 0); }
            printf("\n");
        }
        printf("fin %zu", NA); for (size_t j = NA; j-- > 0;) printf(" %zu", chain[j]->lg_size);
        printf(" | %zu |", (size_t)b.my_count.a.load());
        if (!r.deadlock) A::each(cont, [&](Elem& e) { printf(" %d", e.owner + 1); });
        printf("\n");
        printf("mon %s%s\n", err.empty() ? (r.deadlock ? "DEADLOCK" : "ok") : "VIOLATION ", err.c_str());
        printf("sched"); for (int s : r.schedule) printf(" %d", s); printf("\nend\n");
        fflush(stdout);
    }
    if (r.deadlock) { fflush(stdout); _exit(3); }
    return ok;
}

static bool dispatch(verif::Schedule& s, int idx, bool print) {
    if (g_kind == 0)
        return run_once<tbb::enumerable_thread_specific<Elem, tbb::cache_aligned_allocator<Elem>, CHOSEN>>(s, idx, print, [] { return g_keys[verif::self()]; });
    if (g_kind == 1)
        return run_once<tbb::enumerable_thread_specific<Elem>>(s, idx, print, [] { return std::this_thread::get_id(); });
    return run_once<tbb::combinable<Elem>>(s, idx, print, [] { return std::this_thread::get_id(); });
}

int main(int argc, char** argv) {
    if (argc < 3) return 2;
    // real thread ids are addresses: make them reproducible (replay of kind 1/2 scenarios)
    if (!getenv("VERIF_NO_REEXEC")) {
        int p = personality(0xffffffff);
        if (p != -1 && !(p & ADDR_NO_RANDOMIZE) && personality(p | ADDR_NO_RANDOMIZE) != -1) {
            setenv("VERIF_NO_REEXEC", "1", 1);
            execv("/proc/self/exe", argv);
        }
    }
    char line[1 << 16];
    while (fgets(line, sizeof line, stdin)) {
        std::istringstream is(line); std::string w; is >> w;
        if (w == "kind") is >> g_kind;
        else if (w == "threads") { int c; while (is >> c) g_todo.push_back(c); }
        else if (w == "keys") { unsigned long long k; while (is >> k) g_keys.push_back((std::size_t)k); }
        else if (w == "quiet") g_quiet = true;
    }
    if (g_kind == 0 && g_keys.size() < g_todo.size()) { fprintf(stderr, "bad-op: keys missing\n"); return 2; }
    std::string mode = argv[1];
    long maxruns = argc > 3 ? atol(argv[3]) : 1;
    long runs = 0, bad = 0;
    if (mode == "rand") {
        unsigned long long seed = strtoull(argv[2], 0, 10);
        for (long i = 0; i < maxruns; ++i) { verif::RandomSchedule s(seed * 7919 + i, 32 + (int)(i % 4) * 64); if (!dispatch(s, (int)i, true)) bad++; runs++; }
    } else if (mode == "dfs") {
        verif::DfsSchedule d(atoi(argv[2]));
        do { if (!dispatch(d, (int)runs, false)) { bad++; break; } runs++; } while (runs < maxruns && d.next());
    } else if (mode == "replay") {
        verif::ReplaySchedule s; std::stringstream ss(argv[2]); std::string tok;
        while (std::getline(ss, tok, ',')) if (!tok.empty()) s.tids.push_back(atoi(tok.c_str()));
        if (!dispatch(s, 0, true)) bad++; runs++;
    }
    printf("summary runs=%ld bad=%ld\n", runs, bad);
    return bad ? 1 : 0;
}
