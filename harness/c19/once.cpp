// C19 E-SHIM harness for collaborative_call_once (real header code of /repo under the controlled scheduler).
// usage: once <rand|dfs|replay> <arg> [maxruns]     scenario on stdin:
//   callers <c0> <c1> ...     one controlled thread per entry, thread i performs c_i calls on the same flag
//   throws <a> <b> ...        invocation numbers (0-based, in execution order) on which the user function throws
//   quiet                     print only failing runs
// modes: rand <seed> <nruns> | dfs <preemption bound> <maxruns> | replay <t,t,t,...> | script <tid:cond,...> (see ScriptSchedule)
// Per run prints
//   run <i>
//   e <tid> <kind> <var> <a> <b> <ok> <order>   accesses to the flag's state word (values as hi.lo: hi = 1 + owner thread of
//                                          the runner the pointer bits designate, lo = low reference bits), to a
//                                          runner's m_ref_count / m_is_ready / wait_context (var = refc:<owner> ...),
//                                          and the user function's invocation counter (fcount), in execution order
//   res <tid> <outcome of each call, oldest first: ok:<successes seen at return> | exc:<invocation number>>
//   mon ok | VIOLATION <what> | DEADLOCK     implementation-side property monitors (independent of the Lean model)
//   sched <tids> / end
// Linked with harness-local r1 stubs (see r1_once_stubs.cpp for why) — only header code is under test.
#include <oneapi/tbb/collaborative_call_once.h>
#include "verif_hb.h"
#include <cstdio>
#include <cstring>
#include <map>
#include <set>
#include <sstream>
#include <string>
#include <vector>

namespace d1 = tbb::detail::d1;
using runner_t = d1::collaborative_once_runner;
static constexpr std::uintptr_t MASK = d1::collaborative_once_references_mask;

struct once_exc { int attempt; int thrower; };

static std::vector<int> g_calls;
static std::set<int> g_throws;
static bool g_quiet = false;
static const std::uintptr_t* g_state_raw = nullptr;   // the current run's flag word (raw, for ScriptSchedule)

static std::string word_str(std::uintptr_t v, const std::map<std::uintptr_t, int>& owner) {
    std::uintptr_t hi = v & ~MASK, lo = v & MASK;
    char buf[64];
    if (hi == 0) { snprintf(buf, sizeof buf, "0.%lu", (unsigned long)lo); return buf; }
    auto it = owner.find(hi);
    if (it == owner.end()) { snprintf(buf, sizeof buf, "?%lx.%lu", (unsigned long)hi, (unsigned long)lo); return buf; }
    snprintf(buf, sizeof buf, "%d.%lu", it->second + 1, (unsigned long)lo);
    return buf;
}

static bool run_once(verif::Schedule& sch, int run_idx, bool print) {
    tbb::collaborative_once_flag flag;
    g_state_raw = reinterpret_cast<const std::uintptr_t*>(&flag.m_state.a);   // std::atomic<uintptr_t> is layout-compatible
    std::atomic<int> fcount{0};            // the user function's only shared access: makes the invocation a scheduling point
    size_t T = g_calls.size();
    // ---- implementation-side ghost state (plain memory: one controlled thread runs at a time) ----
    int successes = 0;
    long payload = 0;                      // written by the successful invocation, read by every returning caller
    std::vector<int> executor;             // executor[a] = thread that ran invocation a
    std::vector<std::vector<std::string>> res(T);
    std::vector<int> in_call(T, 0);
    std::string err;
    auto fail = [&](const std::string& s) { if (err.empty()) err = s; };

    verif::clear_names();
    std::vector<std::function<void()>> bodies;
    for (size_t t = 0; t < T; ++t) bodies.push_back([&, t] {
        for (int c = 0; c < g_calls[t]; ++c) {
            int ran = -1;                  // invocation executed inside this very call (if any)
            in_call[t] = 1;
            verif::note("call_begin", t, c);
            try {
                tbb::collaborative_call_once(flag, [&] {
                    int a = fcount.fetch_add(1);
                    ran = a;
                    if ((int)executor.size() != a) fail("invocation counter out of step");
                    executor.push_back((int)t);
                    if (successes != 0) fail("function invoked again after a successful completion (invocation " + std::to_string(a) + ")");
                    if (g_throws.count(a)) throw once_exc{a, (int)t};
                    payload = 4242;
                    verif::note("gw", 1);      // ghost plain write of the function's effect (happens-before monitor)
                    successes++;
                });
                verif::note("gr", 1);           // ghost plain read of the function's effect right after the call returned
                verif::note("call_end", t, c);
                in_call[t] = 0;
                if (successes != 1) fail("call of thread " + std::to_string(t) + " returned normally with " + std::to_string(successes) + " successful completions");
                if (payload != 4242) fail("returning caller does not see the function's effects");
                res[t].push_back("ok:" + std::to_string(successes));
            } catch (const once_exc& e) {
                verif::note("call_end", t, c);
                in_call[t] = 0;
                if (e.thrower != (int)t || ran != e.attempt)
                    fail("exception of invocation " + std::to_string(e.attempt) + " (run by thread " + std::to_string(e.thrower) + ") delivered to thread " + std::to_string(t));
                res[t].push_back("exc:" + std::to_string(e.attempt));
            }
        }
    });
    verif::Result r = verif::run(bodies, sch, 400000);

    // ---- post-run monitors over the access log ----
    if (!r.deadlock) {
        verif::HbStats hst; auto races = verif::hb_check(r.log, T, &hst);
        if (!races.empty()) fail("happens-before: a returning caller's read of the function's effects is not ordered after the write by the memory orders the code passed: " + verif::hb_describe(r.log, races[0]));
    }
    const void* sa = (const void*)&flag.m_state;
    const void* fa = (const void*)&fcount;
    // field offsets inside a runner (white box)
    alignas(runner_t) static char probe_mem[sizeof(runner_t)];
    runner_t* probe = reinterpret_cast<runner_t*>(probe_mem);
    const size_t off_refc = (char*)&probe->m_ref_count - (char*)probe, off_ready = (char*)&probe->m_is_ready - (char*)probe,
                 off_wctx = (char*)&probe->m_storage.m_wait_context.m_ref_count - (char*)probe;
    std::map<std::uintptr_t, int> owner;            // runner address -> thread that constructed it (learned from winner CASes)
    std::vector<std::string> lines;
    std::vector<int> live(T, 0);                    // thread inside a call (its runner may exist)
    if (!r.deadlock) {
        int n_exc = 0;
        for (size_t t = 0; t < T; ++t) for (auto& s : res[t]) if (s[0] == 'e') n_exc++;
        int n_thrown = 0;
        for (size_t a = 0; a < executor.size(); ++a) if (g_throws.count((int)a)) n_thrown++;
        if (n_exc != n_thrown) fail("exceptions delivered " + std::to_string(n_exc) + " != throwing invocations " + std::to_string(n_thrown));
        std::uintptr_t fin = flag.m_state.a.load();
        if (successes == 1 && fin != d1::collaborative_once_flag::done) fail("function succeeded but the flag is not in the done state at the end");
        if (successes == 0 && fin != d1::collaborative_once_flag::uninitialized) fail("no successful completion but the flag did not return to the not-called state");
        if (successes > 1) fail("function completed successfully " + std::to_string(successes) + " times");
        for (size_t t = 0; t < T; ++t) if ((int)res[t].size() != g_calls[t]) fail("a call did not finish");
    }
    for (auto& e : r.log) {
        if (e.kind == verif::K_NOTE) {
            if (e.tag && !strcmp(e.tag, "call_begin")) live[e.tid] = 1;
            if (e.tag && !strcmp(e.tag, "call_end")) live[e.tid] = 0;
            continue;
        }
        if (e.kind > verif::K_FXOR || !e.addr) continue;
        char buf[256];
        if (e.addr == sa) {
            // a runner address enters the word when a caller publishes its own runner (winning CAS; any other write of a
            // fresh aligned pointer by a thread is attributed to that thread as well)
            if (e.kind == verif::K_CAS && e.ok && e.a == 0 && e.b > 1) owner[e.b] = e.tid;
            if ((e.kind == verif::K_STORE || e.kind == verif::K_XCHG) && (e.kind == verif::K_STORE ? e.a : e.b) > MASK) {
                std::uintptr_t v = (e.kind == verif::K_STORE ? e.a : e.b) & ~MASK;
                if (!owner.count(v)) owner[v] = e.tid;
            }
            // a pointer word must designate a runner whose constructing thread is still inside its call
            auto chk = [&](std::uintptr_t v) {
                std::uintptr_t hi = v & ~MASK;
                if (hi == 0) { if ((v & MASK) > 1) fail("state word " + std::to_string(v) + ": reference bits without a runner"); return; }
                auto it = owner.find(hi);
                if (it == owner.end()) fail("state word's pointer bits designate no runner (reference count overflowed into the pointer)");
                else if (!live[it->second]) fail("state word designates a destroyed runner");
            };
            std::string a, b;
            if (e.kind == verif::K_LOAD) { a = word_str(e.a, owner); b = "0"; chk(e.a); }
            else { a = word_str(e.a, owner); b = word_str(e.b, owner); if (e.kind != verif::K_CAS || e.ok) chk(e.b); }
            snprintf(buf, sizeof buf, "e %d %s state %s %s %d %s", e.tid, verif::kind_name(e.kind), a.c_str(), b.c_str(), e.ok, verif::order_name(e.order));
            lines.push_back(buf);
        } else if (e.addr == fa) {
            snprintf(buf, sizeof buf, "e %d %s fcount %llu %llu %d %s", e.tid, verif::kind_name(e.kind), (unsigned long long)e.a, (unsigned long long)e.b, e.ok, verif::order_name(e.order));
            lines.push_back(buf);
        } else {
            std::uintptr_t ad = (std::uintptr_t)e.addr;
            std::uintptr_t base = 0; const char* f = nullptr;
            for (auto& kv : owner) {
                if (ad == kv.first + off_refc) { base = kv.first; f = "refc"; }
                else if (ad == kv.first + off_ready) { base = kv.first; f = "ready"; }
                else if (ad == kv.first + off_wctx) { base = kv.first; f = "wctx"; }
            }
            int own = -1;
            if (f) own = owner[base];
            else {
                // an unpublished runner (its constructor never won): only its own thread can reach it (destructor)
                std::uintptr_t m = ad & MASK;
                if (m == off_refc % (MASK + 1)) f = "refc"; else if (m == off_ready % (MASK + 1)) f = "ready"; else continue;   // other addresses: task_arena handle state etc.
                own = e.tid;
            }
            if (own != e.tid && !live[own]) fail(std::string("access to ") + f + " of the runner of thread " + std::to_string(own) + " after it was destroyed (by thread " + std::to_string(e.tid) + ")");
            snprintf(buf, sizeof buf, "e %d %s %s:%d %llu %llu %d %s", e.tid, verif::kind_name(e.kind), f, own, (unsigned long long)e.a, (unsigned long long)e.b, e.ok, verif::order_name(e.order));
            lines.push_back(buf);
        }
    }
    bool ok = err.empty() && !r.deadlock;
    if ((print && !g_quiet) || !ok) {
        printf("run %d\n", run_idx);
        for (auto& l : lines) puts(l.c_str());
        for (size_t t = 0; t < T; ++t) { printf("res %zu", t); for (auto& s : res[t]) printf(" %s", s.c_str()); printf("\n"); }
        printf("mon %s%s\n", err.empty() ? (r.deadlock ? "DEADLOCK" : "ok") : "VIOLATION ", err.c_str());
        printf("sched"); for (int s : r.schedule) printf(" %d", s); printf("\nend\n");
        fflush(stdout);
    }
    if (r.deadlock) { fflush(stdout); _exit(3); }
    return ok;
}


// Directed schedules for the many-caller scenarios: a list of items "<tid>:<cond>"; the item's thread runs until
//   C      the flag's state word differs from its value when the item started (the thread's CAS took effect)
//   Z      the state word is 0 (uninitialized)
//   S<k>   the thread was picked k times (k scheduling points)
//   P      the thread is no longer enabled (parked on a spin-wait, or finished)
// or until the thread is not enabled; after the last item: non-preemptive, lowest enabled thread.
struct ScriptSchedule : verif::Schedule {
    struct Item { int tid; char cond; long k; bool started = false; std::uintptr_t w0 = 0; long n = 0; };
    std::vector<Item> items; size_t idx = 0;
    static std::uintptr_t word() { return g_state_raw ? __atomic_load_n(g_state_raw, __ATOMIC_RELAXED) : 0; }
    int pick(int cur, const std::vector<int>& en, size_t) override {
        while (idx < items.size()) {
            Item& it = items[idx];
            bool enabled = false; for (int x : en) if (x == it.tid) enabled = true;
            if (!it.started) { it.started = true; it.w0 = word(); it.n = 0; }
            bool done = !enabled;
            if (it.cond == 'C') done = done || word() != it.w0;
            else if (it.cond == 'Z') done = done || (it.n > 0 && word() == 0);
            else if (it.cond == 'S') done = done || it.n >= it.k;
            if (done) { idx++; continue; }
            it.n++;
            return it.tid;
        }
        for (int x : en) if (x == cur) return cur;
        return en[0];
    }
};

int main(int argc, char** argv) {
    if (argc < 3) return 2;
    char line[1 << 16];
    while (fgets(line, sizeof line, stdin)) {
        std::istringstream is(line); std::string w; is >> w;
        if (w == "callers") { int c; while (is >> c) g_calls.push_back(c); }
        else if (w == "throws") { int a; while (is >> a) g_throws.insert(a); }
        else if (w == "quiet") g_quiet = true;
    }
    std::string mode = argv[1];
    long maxruns = argc > 3 ? atol(argv[3]) : 1;
    long runs = 0, bad = 0;
    if (mode == "rand") {
        unsigned long long seed = strtoull(argv[2], 0, 10);
        for (long i = 0; i < maxruns; ++i) { verif::RandomSchedule s(seed * 7919 + i, 32 + (int)(i % 4) * 64); if (!run_once(s, (int)i, true)) bad++; runs++; }
    } else if (mode == "dfs") {
        verif::DfsSchedule d(atoi(argv[2]));
        do { if (!run_once(d, (int)runs, false)) { bad++; break; } runs++; } while (runs < maxruns && d.next());
    } else if (mode == "replay") {
        verif::ReplaySchedule s; std::stringstream ss(argv[2]); std::string tok;
        while (std::getline(ss, tok, ',')) if (!tok.empty()) s.tids.push_back(atoi(tok.c_str()));
        if (!run_once(s, 0, true)) bad++; runs++;
    }
    else if (mode == "script") {
        ScriptSchedule sc; std::stringstream ss(argv[2]); std::string tok;
        while (std::getline(ss, tok, ',')) {
            if (tok.empty()) continue;
            size_t c = tok.find(':'); if (c == std::string::npos || c + 1 >= tok.size()) return 2;
            ScriptSchedule::Item it; it.tid = atoi(tok.substr(0, c).c_str()); it.cond = tok[c + 1]; it.k = tok.size() > c + 2 ? atol(tok.substr(c + 2).c_str()) : 0;
            sc.items.push_back(it);
        }
        if (!run_once(sc, 0, true)) bad++; runs++;
    }
    printf("summary runs=%ld bad=%ld\n", runs, bad);
    return bad ? 1 : 0;
}
