// C19: harness-local stand-ins for the r1:: entry points that collaborative_call_once.h reaches (task_arena attach /
// execute, isolate_within_arena, execute_and_wait, wait, task_group_context life cycle, wait_context notification).
//
// Why stubs and not libtbb: under E-SHIM exactly one controlled thread runs at a time.  A helper that enters the real
// r1::wait() spins/sleeps inside uninstrumented library code while holding the baton, so the winner is never
// scheduled again (livelock of the harness, not of TBB).  What helpers do inside the runner's arena is outside C19
// (DESIGN.md §3 C19 "not modelled", covered by C01/C16); here an arena is "run the delegate on the calling thread",
// and waiting on the runner's wait_context is a spin on its reference count (an instrumented atomic, so it is a
// scheduling point and a logged event).  The exception protocol of the real dispatcher is kept: a task whose
// execute() throws has its context cancelled, the exception captured, then cancel() is invoked on the same task
// (task_dispatcher.h: `t` is still set when the loop is re-entered) and the captured exception is rethrown to the
// caller of execute_and_wait.
// Compiled WITH the E-SHIM prelude and -fno-access-control.
#include <oneapi/tbb/task_arena.h>
#include <oneapi/tbb/task_group.h>
#include <oneapi/tbb/detail/_task.h>
#include <exception>

namespace tbb { namespace detail { namespace r1 {

bool attach(d1::task_arena_base& ta) {
    // pretend the thread already has an arena: any non-null handle
    ta.my_arena.a.store(reinterpret_cast<r1::arena*>(0x1000), std::memory_order_relaxed);   // .a = raw std::atomic (not a scheduling point)
    return true;
}
void initialize(d1::task_arena_base&) {}
void terminate(d1::task_arena_base& ta) { ta.my_arena.a.store(nullptr, std::memory_order_relaxed); }
void execute(d1::task_arena_base&, d1::delegate_base& d) { d(); }
void isolate_within_arena(d1::delegate_base& d, std::intptr_t) { d(); }

void initialize(d1::task_group_context&) {}
void destroy(d1::task_group_context&) {}
void notify_waiters(std::uintptr_t) {}

static void spin_until_released(d1::wait_context& w) {
    while (w.continue_execution()) verif::pause_point();       // m_ref_count.load(acquire): instrumented
}

void execute_and_wait(d1::task& t, d1::task_group_context& t_ctx, d1::wait_context& w, d1::task_group_context&) {
    d1::execution_data ed{};
    ed.context = &t_ctx;
    std::exception_ptr ex;
    try {
        d1::task* next = t.execute(ed);
        (void)next;
    } catch (...) {
        ex = std::current_exception();
        t.cancel(ed);
    }
    spin_until_released(w);
    if (ex) std::rethrow_exception(ex);
}
void wait(d1::wait_context& w, d1::task_group_context&) { spin_until_released(w); }

}}}
