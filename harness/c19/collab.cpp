// C19 E-SHIM harness for the COLLABORATIVE part of collaborative_call_once: the whole instrumented runtime of /repo
// (common.shim_runtime_objects) under the controlled scheduler.  Helpers really enter the runner's task_arena, wait on
// the runner's wait_context inside r1::wait and execute tasks spawned by the user function (a parallel_for).
//
// stdin, one scenario per process:   run <T> <calls> <P> <M> <nest> <poison> <throws|-> <mode> <arg>
//   T      caller threads (thread 0 is the main thread that owns the scheduler handle; 1..T-1 are external threads)
//   calls  calls of collaborative_call_once per caller, all on one flag
//   P      max_allowed_parallelism (P-1 workers; the winner's arena — task_arena::attach — has P slots)
//   M      the user function runs parallel_for over M single-iteration tasks (simple_partitioner, grain 1)
//   nest   0 plain | 1 the last inner task calls collaborative_call_once on a SECOND flag (whoever executes it: winner, helper
//          or worker) | 2 the callers are bodies of an OUTER parallel_for on the main thread (T outer tasks x calls):
//          threads blocked inside the function / inside assist() must not pick up an outer task (isolation)
//   nest + 10*k: the callers run inside one explicit task_arena(T + k - 1... see ARENA) — nest/10 = number of worker slots + 1 of an explicit arena
//          with T slots reserved for the callers (0 = every caller in its own implicit arena: helpers compete with workers for slots)
//   poison 1 = after every call that won, the caller overwrites the bytes of its dead runner with 0xDB
//   throws comma separated invocation numbers (in order of completion) on which the function throws after its
//          parallel_for, or '-'
//   mode   rand <seed> <stay> | replay <file with tids>
// Output:
//   e <tid> <kind> <var> <a> <b> <ok> <order>   accesses to the flag word and to runner fields refc/ready/wctx (as once.cpp)
//   r <tid> <var> <value>                         loads of a runner's wait_context (many, inside the dispatcher)
//   n <tid> <tag> <a> <b>                         call_begin/call_end/fn_begin/task_begin/task_end/poison notes
//   res <tid> <outcomes> / stat ... / mon ok|VIOLATION ...|DEADLOCK / sched ... / end
#include <oneapi/tbb/collaborative_call_once.h>
#include <oneapi/tbb/parallel_for.h>
#include <oneapi/tbb/global_control.h>
#include <oneapi/tbb/task_arena.h>
#include "tbb/governor.h"
#include <algorithm>
#include "verif_hb.h"
#include <cstdio>
#include <cstring>
#include <fstream>
#include <map>
#include <set>
#include <sstream>
#include <string>
#include <vector>

namespace d1 = tbb::detail::d1;
using runner_t = d1::collaborative_once_runner;
static constexpr std::uintptr_t MASK = d1::collaborative_once_references_mask;

struct once_exc { int attempt; int thrower; };

static int T = 2, CALLS = 1, P = 2, M = 4, NEST = 0, POISON = 1, ARENA = 0, BODYW = 2;
static tbb::task_arena* g_ar = nullptr;
static std::set<int> g_throws;
static thread_local std::uintptr_t tl_runner = 0;     // the runner this thread published in its current call (set inside the function)

__attribute__((noinline)) static void do_call(tbb::collaborative_once_flag& f, const std::function<void()>& fn) {
    tbb::collaborative_call_once(f, fn);
}

// overwrite the dead runner (it lived in a frame below the caller's stack pointer); no calls while writing
#define POISON_RUNNER(addr, done_flag)                                                                     \
    do {                                                                                                    \
        std::uintptr_t sp_; asm volatile("mov %%rsp, %0" : "=r"(sp_));                                      \
        if ((addr) + sizeof(runner_t) + 128 <= sp_) {                                                       \
            volatile unsigned char* p_ = (volatile unsigned char*)(addr);                                   \
            for (size_t i_ = 0; i_ < sizeof(runner_t); ++i_) p_[i_] = 0xDB;                                 \
            done_flag = true;                                                                               \
        }                                                                                                   \
    } while (0)

static std::string word_str(std::uintptr_t v, const std::map<std::uintptr_t, int>& owner) {
    std::uintptr_t hi = v & ~MASK, lo = v & MASK;
    char buf[64];
    if (hi == 0) { snprintf(buf, sizeof buf, "0.%lu", (unsigned long)lo); return buf; }
    auto it = owner.find(hi);
    if (it == owner.end()) { snprintf(buf, sizeof buf, "?%lx.%lu", (unsigned long)hi, (unsigned long)lo); return buf; }
    snprintf(buf, sizeof buf, "%d.%lu", it->second + 1, (unsigned long)lo);
    return buf;
}

static bool run_scenario(verif::Schedule& sch) {
    static tbb::collaborative_once_flag flag, flag2;
    static std::atomic<int> fcount{0}, ext_done{0}, work{0};
    // ---- implementation-side ghost state (plain memory: one controlled thread runs at a time) ----
    int successes = 0, successes2 = 0, inv2 = 0;
    long payload = 0;
    int in_fn = -1;                                 // thread currently inside the user function
    std::vector<int> executor;
    std::vector<int> touched(M, 0);                 // per invocation: inner iterations executed
    int cur_exec = 0, max_exec = 0;                 // inner tasks being executed right now
    std::vector<std::vector<std::string>> res(T);
    std::vector<int> depth(T + 64, 0);              // nesting depth of calls per controlled thread (nest=2)
    std::string err;
    int helper_tasks = 0, worker_tasks = 0, winner_tasks = 0, nested_by_helper = 0, poison_skipped = 0, poisons = 0;
    std::vector<int> in_assist(T + 64, 0);
    auto fail = [&](const std::string& s) { if (err.empty()) err = s; };
    auto tid_of = [&]() { int s = verif::self(); return s < 0 ? 0 : s; };

    auto user_fn = [&] {
        int me = tid_of();
        if (in_fn != -1) fail("two invocations of the function overlap (threads " + std::to_string(in_fn) + " and " + std::to_string(me) + ")");
        in_fn = me;
        if (successes != 0) fail("function invoked again after a successful completion");
        std::uintptr_t rb = flag.m_state.a.load() & ~MASK;     // the winner's own runner (raw read: not a scheduling point)
        tl_runner = rb;
        verif::note("fn_begin", (uint64_t)me, (uint64_t)rb);
        std::fill(touched.begin(), touched.end(), 0);
        tbb::parallel_for(tbb::blocked_range<int>(0, M, 1), [&](const tbb::blocked_range<int>& rg) {
            for (int i = rg.begin(); i < rg.end(); ++i) {
                int ex = tid_of();
                verif::note("task_begin", (uint64_t)ex, (uint64_t)i);
                if (in_fn != me) fail("inner task runs while its function invocation is not in progress");
                if (++cur_exec > max_exec) max_exec = cur_exec;
                if (ARENA && cur_exec > std::max(2, T + ARENA - 1)) fail("more threads execute inner tasks than the arena has slots");
                if (ex == me) winner_tasks++; else if (ex < T) helper_tasks++; else worker_tasks++;
                touched[i]++;
                for (int w = 0; w < BODYW; ++w) work.fetch_add(1);    // scheduling points inside the task body
                if (NEST == 1 && i == M - 1) {
                    if (ex != me && ex < T) nested_by_helper++;
                    tbb::collaborative_call_once(flag2, [&] { inv2++; work.fetch_add(1); successes2++; });
                    if (successes2 != 1) fail("nested call on the second flag returned without exactly one completion");
                }
                work.fetch_add(1);
                --cur_exec;
                verif::note("task_end", (uint64_t)ex, (uint64_t)i);
            }
        }, tbb::simple_partitioner{});
        for (int i = 0; i < M; ++i) if (touched[i] != 1) fail("parallel_for inside the function returned with iteration " + std::to_string(i) + " executed " + std::to_string(touched[i]) + " times");
        if (tid_of() != me) fail("function continued on another thread");
        int a = fcount.fetch_add(1);
        executor.push_back(me);
        in_fn = -1;
        if (g_throws.count(a)) throw once_exc{a, me};
        payload = 4242;
        verif::note("gw", 1);
        successes++;
    };
    std::function<void()> fn = user_fn;

    auto caller0 = [&](int slot) {
        for (int c = 0; c < CALLS; ++c) {
            int t = tid_of();
            int before = (int)executor.size();
            bool poisoned = false;
            depth[t]++;
            if (depth[t] > 1) fail("thread " + std::to_string(t) + " started a call of an outer task while it was blocked inside another call on the same flag (no isolation)");
            verif::note("call_begin", (uint64_t)t, (uint64_t)c);
            std::uintptr_t mine = 0;
            try {
                do_call(flag, fn);
                // did this call win?  (executor grew by an entry of this thread)
                for (int a = before; a < (int)executor.size(); ++a) if (executor[a] == t) mine = 1;
                verif::note("gr", 1);
                verif::note("call_end", (uint64_t)t, (uint64_t)c);
                depth[t]--;
                if (successes != 1) fail("call of thread " + std::to_string(t) + " returned normally with " + std::to_string(successes) + " successful completions");
                if (payload != 4242) fail("returning caller does not see the function's effects");
                if (t < T && NEST != 2) res[t].push_back("ok:" + std::to_string(successes)); else if (NEST == 2) res[slot].push_back("ok:" + std::to_string(successes));
            } catch (const once_exc& e) {
                mine = 1;
                verif::note("call_end", (uint64_t)t, (uint64_t)c);
                depth[t]--;
                if (e.thrower != t) fail("exception of invocation " + std::to_string(e.attempt) + " (run by thread " + std::to_string(e.thrower) + ") delivered to thread " + std::to_string(t));
                if (NEST != 2) res[t].push_back("exc:" + std::to_string(e.attempt)); else res[slot].push_back("exc:" + std::to_string(e.attempt));
            }
            if (mine && POISON) {
                // address of the runner this thread published: remembered by the log scan (poison note carries the thread);
                // the bytes are found through the per-thread slot filled by fn_begin
                if (tl_runner) { POISON_RUNNER(tl_runner, poisoned); if (poisoned) { poisons++; verif::note("poison", (uint64_t)t, (uint64_t)tl_runner); } else poison_skipped++; tl_runner = 0; }
            }
        }
    };
    (void)in_assist;
    auto caller = [&](int slot) { if (g_ar) g_ar->execute([&] { caller0(slot); }); else caller0(slot); };

    verif::clear_names();
    std::vector<std::function<void()>> bodies;
    int nthreads = NEST == 2 ? 1 : T;
    bodies.push_back([&] {
        tbb::global_control gc(tbb::global_control::max_allowed_parallelism, (size_t)P);
        tbb::task_scheduler_handle h{tbb::attach{}};
        tbb::task_arena ar(T + ARENA - 1 > 0 ? T + ARENA - 1 : 1, T);
        if (ARENA) { ar.initialize(); g_ar = &ar; ext_done.store(100); }
        if (NEST == 2) {
            tbb::parallel_for(tbb::blocked_range<int>(0, T, 1), [&](const tbb::blocked_range<int>& rg) {
                for (int i = rg.begin(); i < rg.end(); ++i) caller(i);
            }, tbb::simple_partitioner{});
        } else {
            caller(0);
            verif::note("calls_done", 0, 0);
            while (ext_done.load() < (ARENA ? 100 : 0) + nthreads - 1) _mm_pause();
        }
        g_ar = nullptr;
        if (ARENA) ar.terminate();
        tbb::finalize(h);
    });
    for (int k = 1; k < nthreads; ++k) bodies.push_back([&, k] {
        if (ARENA) while (ext_done.load() < 100) _mm_pause();
        caller(k);
        verif::note("calls_done", (uint64_t)k, 0);
        tbb::detail::r1::governor::terminate_external_thread();
        ext_done.fetch_add(1);
    });
    verif::Result r = verif::run(bodies, sch, 8000000);

    // ---- post-run monitors over the access log ----
    if (!r.deadlock) {
        verif::HbStats hst; auto races = verif::hb_check(r.log, (size_t)nthreads, &hst);
        if (!races.empty()) fail("happens-before: a returning caller's read of the function's effects is not ordered after the write by the memory orders the code passed: " + verif::hb_describe(r.log, races[0]));
    }
    const void* sa = (const void*)&flag.m_state;
    const void* fa = (const void*)&fcount;
    alignas(runner_t) static char probe_mem[sizeof(runner_t)];
    runner_t* probe = reinterpret_cast<runner_t*>(probe_mem);
    const size_t off_refc = (char*)&probe->m_ref_count - (char*)probe, off_ready = (char*)&probe->m_is_ready - (char*)probe,
                 off_wctx = (char*)&probe->m_storage.m_wait_context.m_ref_count - (char*)probe;
    std::map<std::uintptr_t, int> owner;            // runner address -> thread that published it
    std::map<std::uintptr_t, int> dead;             // poisoned / ended runner address -> owner
    std::vector<std::string> lines;
    std::vector<int> live(T + 64, 0);
    if (!r.deadlock) {
        int n_exc = 0, n_res = 0;
        for (auto& v : res) for (auto& s : v) { n_res++; if (s[0] == 'e') n_exc++; }
        int n_thrown = 0;
        for (size_t a = 0; a < executor.size(); ++a) if (g_throws.count((int)a)) n_thrown++;
        if (n_exc != n_thrown) fail("exceptions delivered " + std::to_string(n_exc) + " != throwing invocations " + std::to_string(n_thrown));
        std::uintptr_t fin = flag.m_state.a.load();
        if (successes == 1 && fin != d1::collaborative_once_flag::done) fail("function succeeded but the flag is not in the done state at the end");
        if (successes == 0 && fin != d1::collaborative_once_flag::uninitialized) fail("no successful completion but the flag did not return to the not-called state");
        if (successes > 1) fail("function completed successfully " + std::to_string(successes) + " times");
        if (n_res != T * CALLS) fail("a call did not finish");
        if (NEST == 1 && !executor.empty() && inv2 != 1) fail("function of the nested flag ran " + std::to_string(inv2) + " times");
    }
    for (auto& e : r.log) {
        char buf[256];
        if (e.kind == verif::K_NOTE) {
            if (!e.tag) continue;
            if (!strcmp(e.tag, "call_begin")) {
                live[e.a] = 1;
                for (auto it = dead.begin(); it != dead.end();) if (it->second == (int)e.a) it = dead.erase(it); else ++it;
            }
            if (!strcmp(e.tag, "call_end")) {
                live[e.a] = 0;
                for (auto& kv : owner) if (kv.second == (int)e.a) dead[kv.first] = kv.second;
            }
            if (!strcmp(e.tag, "calls_done") && e.a == 0)
                for (auto it = dead.begin(); it != dead.end();) if (it->second == 0) it = dead.erase(it); else ++it;   // main goes on to use its stack
            if (!strcmp(e.tag, "fn_begin")) { if (e.b > MASK && !owner.count(e.b)) owner[e.b] = (int)e.a; }
            snprintf(buf, sizeof buf, "n %d %s %llu %llu", e.tid, e.tag, (unsigned long long)e.a,
                     (unsigned long long)((!strcmp(e.tag, "fn_begin") || !strcmp(e.tag, "poison")) ? 0 : e.b));
            lines.push_back(buf);
            continue;
        }
        if (e.kind > verif::K_FXOR || !e.addr) continue;
        std::uintptr_t ad = (std::uintptr_t)e.addr;
        if (getenv("C19_DEBUG")) for (auto& kv : owner) if (ad >= kv.first && ad < kv.first + sizeof(runner_t)) fprintf(stderr, "dbg tid=%d %s off=%zu ord=%s a=%llu b=%llu\n", e.tid, verif::kind_name(e.kind), (size_t)(ad - kv.first), verif::order_name(e.order), (unsigned long long)e.a, (unsigned long long)e.b);
        // use after scope: another thread touches the bytes of a runner whose owner's call has ended
        for (auto& kv : dead) if (ad >= kv.first && ad < kv.first + sizeof(runner_t) && e.tid != kv.second) {
            snprintf(buf, sizeof buf, "thread %d accessed (%s, offset %zu, value 0x%llx) the runner of thread %d after that thread's call had returned (use after scope of the stack-published runner)",
                     e.tid, verif::kind_name(e.kind), (size_t)(ad - kv.first), (unsigned long long)e.a, kv.second);
            fail(buf);
        }
        if (e.addr == sa) {
            if (e.kind == verif::K_CAS && e.ok && e.a == 0 && e.b > 1) owner[e.b] = e.tid;
            if ((e.kind == verif::K_STORE || e.kind == verif::K_XCHG) && (e.kind == verif::K_STORE ? e.a : e.b) > MASK) {
                std::uintptr_t v = (e.kind == verif::K_STORE ? e.a : e.b) & ~MASK;
                if (!owner.count(v)) owner[v] = e.tid;
            }
            auto chk = [&](std::uintptr_t v) {
                std::uintptr_t hi = v & ~MASK;
                if (hi == 0) { if ((v & MASK) > 1) fail("state word " + std::to_string(v) + ": reference bits without a runner"); return; }
                auto it = owner.find(hi);
                if (it == owner.end()) fail("state word's pointer bits designate no runner (reference count overflowed into the pointer)");
                else if (!live[it->second]) fail("state word designates a destroyed runner");
            };
            std::string a, b;
            if (e.kind == verif::K_LOAD) { a = word_str(e.a, owner); b = "0"; chk(e.a); }
            else { a = word_str(e.a, owner); b = word_str(e.b, owner); if (e.kind != verif::K_CAS || e.ok) chk(e.b); }
            snprintf(buf, sizeof buf, "e %d %s state %s %s %d %s", e.tid, verif::kind_name(e.kind), a.c_str(), b.c_str(), e.ok, verif::order_name(e.order));
            lines.push_back(buf);
        } else if (e.addr == fa) {
            snprintf(buf, sizeof buf, "e %d %s fcount %llu %llu %d %s", e.tid, verif::kind_name(e.kind), (unsigned long long)e.a, (unsigned long long)e.b, e.ok, verif::order_name(e.order));
            lines.push_back(buf);
        } else {
            std::uintptr_t base = 0; const char* f = nullptr;
            for (auto& kv : owner) {
                if (ad == kv.first + off_refc) { base = kv.first; f = "refc"; }
                else if (ad == kv.first + off_ready) { base = kv.first; f = "ready"; }
                else if (ad == kv.first + off_wctx) { base = kv.first; f = "wctx"; }
            }
            int own = -1;
            if (f) own = owner[base];
            else continue;      // other addresses (an unpublished runner is reached by its own thread only: not traced)
            if (own != e.tid && !live[own]) fail(std::string("access to ") + f + " of the runner of thread " + std::to_string(own) + " after it was destroyed (by thread " + std::to_string(e.tid) + ")");
            if (!strcmp(f, "wctx") && e.kind == verif::K_LOAD) snprintf(buf, sizeof buf, "r %d wctx:%d %llu", e.tid, own, (unsigned long long)e.a);
            else snprintf(buf, sizeof buf, "e %d %s %s:%d %llu %llu %d %s", e.tid, verif::kind_name(e.kind), f, own, (unsigned long long)e.a, (unsigned long long)e.b, e.ok, verif::order_name(e.order));
            lines.push_back(buf);
        }
    }
    if (r.deadlock && err.empty()) err = "HANG: every live thread is parked (a call of collaborative_call_once never returns)";
    bool ok = err.empty();
    puts("run 0");
    for (auto& l : lines) puts(l.c_str());
    for (int t = 0; t < T; ++t) { printf("res %d", t); for (auto& s : res[t]) printf(" %s", s.c_str()); printf("\n"); }
    printf("stat steps=%zu invocations=%zu winner_tasks=%d helper_tasks=%d worker_tasks=%d max_exec=%d nested_by_helper=%d poisons=%d poison_skipped=%d\n",
           r.steps, executor.size(), winner_tasks, helper_tasks, worker_tasks, max_exec, nested_by_helper, poisons, poison_skipped);
    printf("mon %s%s\n", ok ? "ok" : "VIOLATION ", err.c_str());
    printf("sched"); for (int s : r.schedule) printf(" %d", s); printf("\nend\n");
    fflush(stdout);
    if (r.deadlock) _exit(3);
    return ok;
}

int main(int argc, char** argv) {
    verif::report_crashes();
    verif::init_determinism(argc, argv);
    std::string line;
    bool ok = true;
    while (std::getline(std::cin, line)) {
        std::stringstream ss(line);
        std::string cmd, thr, mode; ss >> cmd;
        if (cmd != "run") continue;
        ss >> T >> CALLS >> P >> M >> NEST >> POISON >> thr >> mode;
        ARENA = NEST / 10; NEST %= 10; BODYW = 2 + M % 3;
        g_throws.clear();
        if (thr != "-") { std::stringstream ts(thr); std::string tok; while (std::getline(ts, tok, ',')) if (!tok.empty()) g_throws.insert(atoi(tok.c_str())); }
        if (mode == "rand") {
            unsigned long long seed; int stay; ss >> seed >> stay;
            verif::RandomSchedule s(seed, stay);
            ok = run_scenario(s);
        } else {
            std::string file; ss >> file;
            verif::ReplaySchedule s; std::ifstream f(file); int t; while (f >> t) s.tids.push_back(t);
            ok = run_scenario(s);
        }
        break;      // one scenario per process
    }
    fflush(stdout);
    _exit(ok ? 0 : 1);
}
