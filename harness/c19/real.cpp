// C19 E-REAL harness: collaborative_call_once and enumerable_thread_specific/combinable against the REAL libtbb of /repo
// (arenas, workers, wait_context: everything the E-SHIM stubs abstract away), under whatever schedules the OS
// produces.  Only implementation-side property monitors here (no model replay).
// stdin, one scenario per line, one result line per scenario ("ok ..." or "VIOLATION ..."):
//   once <mode> <threads> <calls per thread> <reps> <throwing invocation numbers...>
//        mode: t = plain std::threads; p = callers are parallel_for bodies (inside an arena, workers can moonlight);
//              n = the user function itself runs a nested parallel_for (helpers have something to help with)
//   ets <kind> <threads> <lookups per thread> <reps>          kind: e = enumerable_thread_specific, c = combinable
#include <oneapi/tbb/collaborative_call_once.h>
#include <oneapi/tbb/enumerable_thread_specific.h>
#include <oneapi/tbb/combinable.h>
#include <oneapi/tbb/parallel_for.h>
#include <oneapi/tbb/global_control.h>
#include <atomic>
#include <cstdio>
#include <mutex>
#include <set>
#include <sstream>
#include <stdexcept>
#include <string>
#include <thread>
#include <vector>

struct once_exc { int attempt; std::thread::id thrower; };

static std::string run_once_scenario(char mode, int T, int calls, int reps, const std::set<int>& throws) {
    long total_calls = 0, total_exc = 0;
    for (int rep = 0; rep < reps; ++rep) {
        tbb::collaborative_once_flag flag;
        std::atomic<int> fcount{0}, successes{0}, okret{0}, excret{0}, start{0};
        std::atomic<long> payload{0};
        std::mutex m; std::string err;
        auto fail = [&](const std::string& s) { std::lock_guard<std::mutex> g(m); if (err.empty()) err = s; };
        auto caller = [&](int t) {
            for (int c = 0; c < calls; ++c) {
                int ran = -1;
                try {
                    tbb::collaborative_call_once(flag, [&] {
                        int a = fcount.fetch_add(1);
                        ran = a;
                        if (successes.load() != 0) fail("function invoked again after a successful completion");
                        if (mode == 'n') {
                            std::atomic<int> sum{0};
                            tbb::parallel_for(0, 2000, [&](int i) { sum += i & 1; });
                        }
                        if (throws.count(a)) throw once_exc{a, std::this_thread::get_id()};
                        payload.store(4242, std::memory_order_relaxed);
                        successes.fetch_add(1);
                    });
                    if (successes.load() != 1) fail("call returned normally with " + std::to_string(successes.load()) + " successful completions");
                    if (payload.load(std::memory_order_relaxed) != 4242) fail("returning caller does not see the function's effects");
                    okret++;
                } catch (const once_exc& e) {
                    if (e.thrower != std::this_thread::get_id() || ran != e.attempt) fail("exception of invocation " + std::to_string(e.attempt) + " delivered to another caller");
                    excret++;
                }
            }
            (void)t;
        };
        if (mode == 't') {
            std::vector<std::thread> th;
            for (int t = 0; t < T; ++t) th.emplace_back([&, t] { start++; while (start.load() < T) std::this_thread::yield(); caller(t); });
            for (auto& x : th) x.join();
        } else {
            tbb::parallel_for(0, T, [&](int t) { caller(t); }, tbb::simple_partitioner{});
        }
        int nthrown = 0; for (int a = 0; a < fcount.load(); ++a) if (throws.count(a)) nthrown++;
        if (excret.load() != nthrown) fail("exceptions delivered " + std::to_string(excret.load()) + " != throwing invocations " + std::to_string(nthrown));
        if (successes.load() > 1) fail("function completed successfully " + std::to_string(successes.load()) + " times");
        if (okret.load() + excret.load() != T * calls) fail("a call did not finish");
        std::uintptr_t fin = flag.m_state.load();
        if (successes.load() == 1 && fin != 1) fail("function succeeded but the flag is not done");
        if (successes.load() == 0 && fin != 0) fail("no successful completion but the flag did not return to the not-called state");
        total_calls += T * calls; total_exc += excret.load();
        if (!err.empty()) return "VIOLATION " + err + " (rep " + std::to_string(rep) + ")";
    }
    return "ok calls=" + std::to_string(total_calls) + " exceptions=" + std::to_string(total_exc);
}

struct Elem { std::thread::id owner; long hits; static std::atomic<long> ctor; Elem() : owner(std::this_thread::get_id()), hits(0) { ctor++; } };
std::atomic<long> Elem::ctor{0};

template <class C, class Each>
static std::string run_ets_scenario(int T, int lookups, int reps, Each each) {
    long total = 0;
    for (int rep = 0; rep < reps; ++rep) {
        C cont;
        Elem::ctor = 0;
        std::atomic<int> start{0};
        std::mutex m; std::string err; std::set<const void*> addrs;
        auto fail = [&](const std::string& s) { std::lock_guard<std::mutex> g(m); if (err.empty()) err = s; };
        std::vector<std::thread> th;
        for (int t = 0; t < T; ++t) th.emplace_back([&] {
            start++; while (start.load() < T) std::this_thread::yield();
            const void* first = nullptr;
            for (int c = 0; c < lookups; ++c) {
                bool ex = false;
                Elem& e = cont.local(ex);
                if (e.owner != std::this_thread::get_id()) fail("thread got an element constructed by another thread");
                e.hits++;
                if (first && first != &e) fail("local() changed address between calls");
                if (ex != (first != nullptr)) fail("exists flag wrong");
                first = &e;
            }
            std::lock_guard<std::mutex> g(m);
            if (!addrs.insert(first).second) { if (err.empty()) err = "two threads share an element"; }
        });
        for (auto& x : th) x.join();
        long visited = 0; std::set<const void*> seen;
        each(cont, [&](Elem& e) { visited++; if (!seen.insert(&e).second) fail("iteration visits an element twice"); if (e.hits != lookups) fail("element used by another thread as well"); });
        if (visited != T || Elem::ctor.load() != T) fail("iteration visits " + std::to_string(visited) + " elements, initialiser ran " + std::to_string(Elem::ctor.load()) + " times, threads " + std::to_string(T));
        for (auto p : addrs) if (!seen.count(p)) fail("iteration misses a thread's element");
        total += (long)T * lookups;
        if (!err.empty()) return "VIOLATION " + err + " (rep " + std::to_string(rep) + ")";
    }
    return "ok lookups=" + std::to_string(total);
}

// real threads + a throwing initialiser: what size(), iteration, combine and a second local() do afterwards
struct TElem { long magic; TElem() : magic(0x600DC0DE) {} };
static std::string run_ets_throw(int T, int reps) {
    std::string first;
    for (int rep = 0; rep < reps; ++rep) {
        std::atomic<int> calls{0}, start{0}, have{0}, second_ok{0};
        tbb::enumerable_thread_specific<TElem> ets([&]() -> TElem { if (calls++ == 1) throw std::runtime_error("init"); return TElem(); });
        std::vector<std::thread> th;
        for (int t = 0; t < T; ++t) th.emplace_back([&] {
            start++; while (start.load() < T) std::this_thread::yield();
            for (int k = 0; k < 2; ++k) {
                try { bool ex; TElem& e = ets.local(ex); if (k == 1 && e.magic == 0x600DC0DE) second_ok++; if (k == 0) have++; else if (!ex) have++; }
                catch (std::runtime_error&) {}
            }
        });
        for (auto& x : th) x.join();
        int visited = 0, dead = 0;
        // fresh pages of the vector's segment are zero: a never-constructed TElem has magic 0
        for (auto& e : ets) { visited++; if (e.magic != 0x600DC0DE) dead++; }
        if (second_ok.load() != T) return "VIOLATION a second local() after the failure did not return a constructed element";
        if ((int)ets.size() != T || dead) {
            if (first.empty()) first = "VIOLATION ets-throwing-initialiser: " + std::to_string(T) + " threads each have one element after the retry, size() = " + std::to_string(ets.size()) +
                ", iteration visits " + std::to_string(visited) + " elements of which " + std::to_string(dead) + " never constructed, initialiser calls = " + std::to_string(calls.load());
        }
    }
    return first.empty() ? "ok" : first;
}

int main() {
    char line[4096];
    while (fgets(line, sizeof line, stdin)) {
        std::istringstream is(line); std::string w; is >> w;
        if (w == "once") {
            char mode; int T, calls, reps; is >> mode >> T >> calls >> reps;
            std::set<int> throws; int a; while (is >> a) throws.insert(a);
            if (!is.eof() && is.fail() && false) { puts("bad-op"); continue; }
            puts(run_once_scenario(mode, T, calls, reps, throws).c_str());
        } else if (w == "ets") {
            char kind; int T, lookups, reps; is >> kind >> T >> lookups >> reps;
            if (kind == 'e') puts(run_ets_scenario<tbb::enumerable_thread_specific<Elem>>(T, lookups, reps, [](tbb::enumerable_thread_specific<Elem>& c, auto f) { for (auto& e : c) f(e); }).c_str());
            else puts(run_ets_scenario<tbb::combinable<Elem>>(T, lookups, reps, [](tbb::combinable<Elem>& c, auto f) { c.combine_each([&](Elem& e) { f(e); }); }).c_str());
        } else if (w == "etsthrow") {
            int T, reps; is >> T >> reps;
            puts(run_ets_throw(T, reps).c_str());
        } else puts("bad-op");
        fflush(stdout);
    }
    return 0;
}
