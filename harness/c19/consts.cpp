// E-GEN constant dumper for C19 (compiled with -fno-access-control against /repo's current headers on every run)
#include <oneapi/tbb/collaborative_call_once.h>
#include <oneapi/tbb/enumerable_thread_specific.h>
#include <cstdio>
namespace d1 = tbb::detail::d1;
int main() {
    // ETS: lg_size of the first array (a literal inside table_lookup) is observed on a fresh container
    tbb::enumerable_thread_specific<int> e;
    e.local();
    using base = d1::ets_base<d1::ets_no_key>;
    base::array* r = ((base&)e).my_root.load();
    printf("{\"maxRefs\": %zu, \"refMask\": %zu, \"runnerAlign\": %zu, \"stUninit\": %zu, \"stDone\": %zu, \"wordBits\": %zu,"
           " \"etsHashBits\": %zu, \"etsInitLg\": %zu, \"etsKeyBytes\": %zu}\n",
           (size_t)d1::collaborative_once_max_references, (size_t)d1::collaborative_once_references_mask,
           alignof(d1::collaborative_once_runner), (size_t)d1::collaborative_once_flag::uninitialized,
           (size_t)d1::collaborative_once_flag::done, sizeof(std::uintptr_t) * 8,
           sizeof(std::size_t) * 8, (size_t)r->lg_size, sizeof(base::key_type));
}
