// C19 container-lifecycle harness for enumerable_thread_specific (ets_no_key, ets_key_per_instance) and combinable:
// "one element per thread across the container's lifecycle, for every key kind".
// Built twice from this file:
//   * under E-SHIM (default): real header code, real OS threads (so native TLS is real) run one at a time under a seeded /
//     replayed schedule; every atomic access of table_lookup / concurrent_vector is a scheduling point;
//   * with -DLIFE_REAL: plain std::threads against the real libtbb, OS schedules.
// usage: life <rand seed nruns | replay t,t,... | real nruns>      scenario on stdin:
//   kind nokey|perinst|comb
//   threads <T>
//   phase L <t>:<n> <t>:<n> ...     the listed threads call local() n times each, concurrently
//   phase C <t>                     thread t calls clear()
//   phase R <t>                     thread t destroys the container and constructs a new one at the same address
//   phase M <t>                     thread t moves the container away and back (move constructor + move assignment)
//   phase X <t>                     thread t move-assigns a freshly constructed container into the container (`C fresh; cont = std::move(fresh);`:
//                                   the old elements die with the temporary; like clear() for everybody else)
//   phase Y <t>                     thread t copy-constructs a second container, checks it, destroys it
//   quiet                           print only failing runs
// A thread lives from the start of the run to its last phase (threads outlive clear(); threads whose first phase comes
// after a clear() are "new threads").  Per run prints
//   run <i>
//   op l <t> <creator>@<generation>|dead|? <exists>      every local() in order of completion
//   op c|r|m|x|y <t>
//   chk <phase> size=<n> iter=<sorted creators> live=<constructed and not destroyed elements>
//   mon ok | VIOLATION <what> | DEADLOCK          (implementation-side monitors, independent of the Lean model)
//   sched <tids> / end
#include <oneapi/tbb/enumerable_thread_specific.h>
#include <oneapi/tbb/combinable.h>
#include <pthread.h>
#include <sched.h>
#include <sys/personality.h>
#include <unistd.h>
#include <atomic>
#include <cstdio>
#include <cstring>
#include <functional>
#include <map>
#include <new>
#include <set>
#include <sstream>
#include <string>
#include <thread>
#include <vector>

#ifdef LIFE_REAL
static thread_local int tl_self = -1;
static int self_id() { return tl_self; }
struct Lock { volatile int f = 0; void lock() { while (__atomic_exchange_n(&f, 1, __ATOMIC_ACQUIRE)) sched_yield(); } void unlock() { __atomic_store_n(&f, 0, __ATOMIC_RELEASE); } };
#else
static int self_id() { return verif::self(); }
struct Lock { void lock() {} void unlock() {} };      // one controlled thread runs at a time and the monitors contain no scheduling point
#endif
static Lock g_lk;
static thread_local int tl_guard_depth = 0;      // re-entrant: monitors that hold the lock may copy elements (whose constructors take it too)
struct Guard { Guard() { if (tl_guard_depth++ == 0) g_lk.lock(); } ~Guard() { if (--tl_guard_depth == 0) g_lk.unlock(); } };

namespace d1 = tbb::detail::d1;

// ---- monitors' state --------------------------------------------------------------------------------------------
struct Info { int creator; int gen; bool copy; };
static std::map<const void*, Info> g_live;        // constructed and not yet destroyed elements
static int g_gen = 0;                             // number of clear() / re-creations so far
static std::vector<int> g_inits;                  // initialiser calls per thread in the current generation
static std::string g_err;
static void fail(const std::string& s) { if (g_err.empty()) g_err = s; }

struct Elem {
    int owner; int gen; long hits;
    Elem() : owner(self_id()), gen(0), hits(0) {
        Guard g; gen = g_gen;
        if (g_live.count(this)) fail("an element was constructed over a live element");
        g_live[this] = Info{owner, g_gen, false};
        if (owner >= 0 && owner < (int)g_inits.size()) g_inits[owner]++;
    }
    Elem(const Elem& o) : owner(o.owner), gen(o.gen), hits(o.hits) { Guard g; g_live[this] = Info{owner, gen, true}; }
    Elem(Elem&& o) : owner(o.owner), gen(o.gen), hits(o.hits) { Guard g; g_live[this] = Info{owner, gen, true}; }
    Elem& operator=(const Elem&) = default;
    ~Elem() { Guard g; if (!g_live.erase(this)) fail("an element was destroyed twice"); }
};

// every public way of visiting the elements must agree with the primary traversal (`each`): they all have to see each thread's element
// exactly once.  `hits` is free for this: the elements get hits = owner + 1 first, so a fold over `hits` names the set of owners.
static Elem fold_hits(const Elem& a, const Elem& b) { Elem r(a); r.hits = a.hits + b.hits; return r; }
template <class C> struct Acc;
template <class T, class A, d1::ets_key_usage_type K> struct Acc<tbb::enumerable_thread_specific<T, A, K>> {
    using C = tbb::enumerable_thread_specific<T, A, K>;
    template <class F> static void each(C& c, F f) { for (auto it = c.begin(); it != c.end(); ++it) f(*it); }
    static size_t size(C& c) { return c.size(); }
    static void other_traversals(C& c, size_t users, long owners_sum) {
        size_t n1 = 0, n2 = 0, n3 = 0; long s1 = 0, s2 = 0, s3 = 0;
        c.combine_each([&](const T& x) { n1++; s1 += x.hits; });
        const C& cc = c;
        for (auto it = cc.begin(); it != cc.end(); ++it) { n2++; s2 += it->hits; }
        for (auto& x : c.range()) { n3++; s3 += x.hits; }
        if (n1 != users || s1 != owners_sum) fail("combine_each visits " + std::to_string(n1) + " elements (owner sum " + std::to_string(s1) + ") but " + std::to_string(users) + " threads have an element (sum " + std::to_string(owners_sum) + ")");
        if (n2 != users || s2 != owners_sum) fail("const iteration visits " + std::to_string(n2) + " elements but " + std::to_string(users) + " threads have an element");
        if (n3 != users || s3 != owners_sum) fail("range() visits " + std::to_string(n3) + " elements but " + std::to_string(users) + " threads have an element");
        if (users) { T r = c.combine(fold_hits); if (r.hits != owners_sum) fail("combine(f) folded to " + std::to_string(r.hits) + " instead of " + std::to_string(owners_sum) + " (an element missed or visited twice)"); }
    }
};
template <class T> struct Acc<tbb::combinable<T>> {
    using C = tbb::combinable<T>;
    template <class F> static void each(C& c, F f) { c.combine_each([&](T& x) { f(x); }); }
    static size_t size(C& c) { size_t n = 0; c.combine_each([&](const T&) { n++; }); return n; }
    static void other_traversals(C& c, size_t users, long owners_sum) {
        if (users) { T r = c.combine(fold_hits); if (r.hits != owners_sum) fail("combinable::combine(f) folded to " + std::to_string(r.hits) + " instead of " + std::to_string(owners_sum) + " (an element missed or visited twice)"); }
    }
};

template <class C> struct Convert { template <class F> static void run(C&, F) {} };
template <class T, class A> struct Convert<tbb::enumerable_thread_specific<T, A, tbb::ets_no_key>> {
    template <class F> static void run(tbb::enumerable_thread_specific<T, A, tbb::ets_no_key>& c, F f) {
        tbb::enumerable_thread_specific<T, A, tbb::ets_key_per_instance> conv(c); f(conv, "a converting copy (to ets_key_per_instance)");
    }
};
template <class T, class A> struct Convert<tbb::enumerable_thread_specific<T, A, tbb::ets_key_per_instance>> {
    template <class F> static void run(tbb::enumerable_thread_specific<T, A, tbb::ets_key_per_instance>& c, F f) {
        tbb::enumerable_thread_specific<T, A, tbb::ets_no_key> conv(c); f(conv, "a converting copy (to ets_no_key)");
    }
};

struct Phase { char kind; std::vector<std::pair<int, int>> who; };      // L: (thread, n)...; others: (thread, 0)
static std::string g_kind = "nokey";
static int g_T = 0;
static std::vector<Phase> g_phases;
static bool g_quiet = false;

static std::atomic<int> g_phase{0}, g_left{0};

static long free_tls_keys() {       // how many pthread keys can still be created (leak detector)
    std::vector<pthread_key_t> ks; pthread_key_t k;
    while (pthread_key_create(&k, nullptr) == 0) ks.push_back(k);
    for (auto x : ks) pthread_key_delete(x);
    return (long)ks.size();
}

struct RunOut { std::vector<std::string> lines; bool deadlock = false; std::vector<int> sched; };

template <class C> static bool run_once(
#ifndef LIFE_REAL
    verif::Schedule& sch,
#endif
    int run_idx) {
    using A = Acc<C>;
    size_t T = (size_t)g_T;
    g_live.clear(); g_gen = 0; g_inits.assign(T, 0); g_err.clear();
    long keys_before = free_tls_keys();
    alignas(C) static unsigned char storage[sizeof(C)];
    C* cont = new (storage) C();
    std::vector<int> accessed(T, -1);                 // generation of the thread's last access
    std::vector<const void*> addr(T, nullptr);        // its element in that generation
    std::map<const void*, int> addr_owner;            // this generation: address -> thread it was returned to
    std::vector<std::string> out;
    auto users = [&] { size_t n = 0; for (size_t t = 0; t < T; ++t) if (accessed[t] == g_gen) n++; return n; };

    auto check_phase = [&](size_t p) {                // single-threaded: every other thread waits for the next phase
        std::map<const void*, int> visits; std::vector<int> creators;
        A::each(*cont, [&](Elem& e) { visits[(const void*)&e]++; creators.push_back(e.owner); });
        size_t u = users(), nlive = 0;
        for (auto& kv : g_live) if (!kv.second.copy) nlive++;
        if (A::size(*cont) != u) fail("size() = " + std::to_string(A::size(*cont)) + " but " + std::to_string(u) + " threads accessed the container since the last clear()");
        if (visits.size() != u) fail("iteration visits " + std::to_string(visits.size()) + " elements but " + std::to_string(u) + " threads accessed the container since the last clear()");
        for (size_t t = 0; t < T; ++t) if (accessed[t] == g_gen && visits[addr[t]] != 1)
            fail("iteration visits the element of thread " + std::to_string(t) + " " + std::to_string(visits[addr[t]]) + " times");
        if (nlive != u) fail(std::to_string(nlive) + " elements are alive but " + std::to_string(u) + " threads accessed the container since the last clear()");
        for (size_t t = 0; t < T; ++t) if (g_inits[t] != (accessed[t] == g_gen ? 1 : 0))
            fail("thread " + std::to_string(t) + " ran the initialiser " + std::to_string(g_inits[t]) + " times in this generation");
        {   // the other traversal APIs
            long osum = 0;
            A::each(*cont, [&](Elem& e) { e.hits = e.owner + 1; osum += e.owner + 1; });
            A::other_traversals(*cont, visits.size(), osum);
        }
        std::sort(creators.begin(), creators.end());
        std::string s = "chk " + std::to_string(p) + " size=" + std::to_string(A::size(*cont)) + " iter=";
        for (size_t i = 0; i < creators.size(); ++i) s += (i ? "," : "") + std::to_string(creators[i]);
        out.push_back(s + " live=" + std::to_string(nlive));
    };
    auto new_generation = [&] { g_gen++; std::fill(g_inits.begin(), g_inits.end(), 0); addr_owner.clear(); };

    auto lookup = [&](int t) {
        bool exists = false;
        Elem& e = cont->local(exists);
        Guard g;
        const void* a = (const void*)&e;
        auto it = g_live.find(a);
        std::string name = "dead";
        if (it == g_live.end()) fail("local() of thread " + std::to_string(t) + " returned the address of a destroyed element (exists=" + std::to_string(exists) + ")");
        else {
            name = std::to_string(it->second.creator) + "@" + std::to_string(it->second.gen);
            if (it->second.creator != t) fail("thread " + std::to_string(t) + " got an element constructed by thread " + std::to_string(it->second.creator));
            if (it->second.gen != g_gen || it->second.copy) fail("thread " + std::to_string(t) + " got an element that does not belong to the container's current generation");
        }
        bool before = accessed[t] == g_gen;
        if (exists != before) fail(std::string("exists flag is ") + (exists ? "true" : "false") + " for thread " + std::to_string(t) + " which has " + (before ? "" : "not ") + "accessed the container since the last clear()");
        if (before && addr[t] != a) fail("local() of thread " + std::to_string(t) + " changed address without a clear()");
        auto ins = addr_owner.insert({a, t});
        if (ins.first->second != t) fail("threads " + std::to_string(ins.first->second) + " and " + std::to_string(t) + " share one element");
        if (t < (int)g_inits.size() && g_inits[t] != 1) fail("thread " + std::to_string(t) + " ran the initialiser " + std::to_string(g_inits[t]) + " times in this generation");
        accessed[t] = g_gen; addr[t] = a;
        out.push_back("op l " + std::to_string(t) + " " + name + " " + (exists ? "1" : "0"));
    };

    auto do_phase = [&](size_t p, int t, int n) {
        const Phase& ph = g_phases[p];
        switch (ph.kind) {
        case 'L': for (int i = 0; i < n; ++i) lookup(t); break;
        case 'C': cont->clear(); { Guard g; new_generation(); out.push_back("op c " + std::to_string(t)); } break;
        case 'R': cont->~C(); cont = new (storage) C(); { Guard g; new_generation(); out.push_back("op r " + std::to_string(t)); } break;
        case 'M': { C tmp(std::move(*cont)); *cont = std::move(tmp); } { Guard g; out.push_back("op m " + std::to_string(t)); } break;
        case 'X': { { C fresh; *cont = std::move(fresh); } Guard g; new_generation(); out.push_back("op x " + std::to_string(t)); } break;
        case 'Y': {
            // every way of copying: copy construction, copy assignment into a used container, and (ETS) the converting copy into the other key flavour
            auto check_copy = [&](auto& copy, const char* how) {
                std::set<int> owners; size_t n2 = 0;
                Acc<typename std::decay<decltype(copy)>::type>::each(copy, [&](Elem& e) { owners.insert(e.owner); n2++; });
                Guard g;
                if (n2 != users() || owners.size() != n2) fail(std::string(how) + " of the container has " + std::to_string(n2) + " elements (" + std::to_string(owners.size()) + " distinct owners) for " + std::to_string(users()) + " threads");
                for (int o : owners) if (o < 0 || o >= (int)T || accessed[o] != g_gen) fail(std::string(how) + " of the container holds an element of thread " + std::to_string(o) + " which has no element");
            };
            { C copy(*cont); check_copy(copy, "a copy"); }
            { C other; other = *cont; check_copy(other, "a copy-assigned container"); }
            Convert<C>::run(*cont, check_copy);
            { Guard g; out.push_back("op y " + std::to_string(t)); }
        } break;
        }
    };

    std::vector<std::function<void()>> bodies;
    for (size_t t = 0; t < T; ++t) bodies.push_back([&, t] {
#ifdef LIFE_REAL
        tl_self = (int)t;
#endif
        for (size_t p = 0; p < g_phases.size(); ++p) {
            int n = -1;
            for (auto& w : g_phases[p].who) if (w.first == (int)t) n = w.second;
            if (n < 0) continue;
            while (g_phase.load() < (int)p) std::this_thread::yield();
            do_phase(p, (int)t, n);
            if (g_left.fetch_sub(1) == 1) {
                { Guard g; check_phase(p); }
                if (p + 1 < g_phases.size()) g_left.store((int)g_phases[p + 1].who.size());
                g_phase.store((int)p + 1);
            }
        }
    });
    g_phase.store(0); g_left.store(g_phases.empty() ? 0 : (int)g_phases[0].who.size());
    bool deadlock = false; std::vector<int> sched;
#ifdef LIFE_REAL
    { std::vector<std::thread> th; for (auto& b : bodies) th.emplace_back(b); for (auto& x : th) x.join(); }
#else
    verif::clear_names();
    verif::Result r = verif::run(bodies, sch, 4000000);
    deadlock = r.deadlock; sched = r.schedule;
#endif
    if (!deadlock) {
        cont->~C();
        size_t left = 0; for (auto& kv : g_live) if (!kv.second.copy) left++;
        if (left) fail(std::to_string(left) + " elements survive the destruction of the container");
        long keys_after = free_tls_keys();
        if (keys_after != keys_before) fail("native TLS keys leaked: " + std::to_string(keys_before - keys_after) + " keys are still allocated after the container was destroyed");
    }
    bool ok = g_err.empty() && !deadlock;
    if (!g_quiet || !ok) {
        printf("run %d\n", run_idx);
        for (auto& l : out) puts(l.c_str());
        printf("mon %s%s\n", g_err.empty() ? (deadlock ? "DEADLOCK" : "ok") : "VIOLATION ", g_err.c_str());
        printf("sched"); for (int s : sched) printf(" %d", s); printf("\nend\n");
        fflush(stdout);
    }
    if (deadlock) { fflush(stdout); _exit(3); }
    return ok;
}

template <class... X> static bool dispatch(X&... x) {
    if (g_kind == "nokey") return run_once<tbb::enumerable_thread_specific<Elem>>(x...);
    if (g_kind == "perinst") return run_once<tbb::enumerable_thread_specific<Elem, tbb::cache_aligned_allocator<Elem>, tbb::ets_key_per_instance>>(x...);
    return run_once<tbb::combinable<Elem>>(x...);
}

int main(int argc, char** argv) {
    if (argc < 3) return 2;
    if (!getenv("VERIF_NO_REEXEC")) {          // thread ids are addresses: reproducible probe sequences for replay
        int p = personality(0xffffffff);
        if (p != -1 && !(p & ADDR_NO_RANDOMIZE) && personality(p | ADDR_NO_RANDOMIZE) != -1) { setenv("VERIF_NO_REEXEC", "1", 1); execv("/proc/self/exe", argv); }
    }
    char line[1 << 16];
    while (fgets(line, sizeof line, stdin)) {
        std::istringstream is(line); std::string w; is >> w;
        if (w == "kind") is >> g_kind;
        else if (w == "threads") is >> g_T;
        else if (w == "quiet") g_quiet = true;
        else if (w == "phase") {
            Phase ph; std::string k; is >> k; ph.kind = k.empty() ? '?' : k[0];
            std::string tok;
            while (is >> tok) { int t = atoi(tok.c_str()), n = 0; size_t c = tok.find(':'); if (c != std::string::npos) n = atoi(tok.c_str() + c + 1); ph.who.push_back({t, n}); }
            bool ok = std::string("LCRMXY").find(ph.kind) != std::string::npos && !ph.who.empty() && (ph.kind == 'L' || ph.who.size() == 1);
            for (auto& x : ph.who) if (x.first < 0 || x.first >= g_T) ok = false;
            if (!ok) { fprintf(stderr, "bad-op: %s", line); return 2; }
            g_phases.push_back(ph);
        }
    }
    if (g_T < 1 || (g_kind != "nokey" && g_kind != "perinst" && g_kind != "comb")) { fprintf(stderr, "bad-op: scenario\n"); return 2; }
    std::string mode = argv[1];
    long runs = 0, bad = 0;
    { tbb::enumerable_thread_specific<int> warm; warm.local() = 1; }     // lazy one-time initialisations (allocator TLS keys) happen before any run is measured
#ifdef LIFE_REAL
    long n = atol(argv[2]);
    for (long i = 0; i < n; ++i) { int idx = (int)i; if (!dispatch(idx)) bad++; runs++; }
#else
    long maxruns = argc > 3 ? atol(argv[3]) : 1;
    if (mode == "rand") {
        unsigned long long seed = strtoull(argv[2], 0, 10);
        for (long i = 0; i < maxruns; ++i) { verif::RandomSchedule s(seed * 7919 + i, 32 + (int)(i % 4) * 64); int idx = (int)i; if (!dispatch(s, idx)) bad++; runs++; }
    } else if (mode == "replay") {
        verif::ReplaySchedule s; std::stringstream ss(argv[2]); std::string tok;
        while (std::getline(ss, tok, ',')) if (!tok.empty()) s.tids.push_back(atoi(tok.c_str()));
        int idx = 0; if (!dispatch(s, idx)) bad++; runs++;
    }
#endif
    printf("summary runs=%ld bad=%ld\n", runs, bad);
    return bad ? 1 : 0;
}
